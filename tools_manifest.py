#!/usr/bin/env python3
"""Regenerates MANIFEST.json from the table below (so it is always valid)."""
import json
import os

HERE = os.path.dirname(os.path.abspath(__file__))
ALL = ['C%02d' % i for i in range(1, 21)]

# pid -> (level, technique, engine, text, note, design_ref)
CHECKS = {
 'C01': ('exploration',
         'Hypothesis-generated histories on real Bert-E + real git; invariant '
         'monitor over the remote ref journal; collect-then-ddmin shrinking',
         'E1',
         'Generated histories (all rule kinds, 3 modes, octopus/no_octopus, '
         '1-4 destinations incl. stabilization / major-only / hotfix) are run '
         'by the real code against a real bare repository; the inclusion chain '
         '(computed from names) is checked after every ref transaction Bert-E '
         'makes on a destination and after every job. Bounded search, no '
         'absence claim.',
         'in-tree mock host; bounded history length (10-30 steps) and <= 4 PRs',
         'DESIGN.md 4/C01'),
 'C04': ('exploration',
         'exhaustive enumeration of the approval predicate against a '
         'statement-derived three-valued oracle',
         'E2',
         'Every tuple of the stated domain (11.7M quick / 49M thorough) is '
         'pushed through the real handle_comments + check_approvals on a real '
         'PullRequestJob; plus the settings-schema rule. Exhaustive for the '
         'stated universe.',
         'git host replaced by scripted fakes; EITHER cells listed in DESIGN.md',
         'DESIGN.md 4/C04'),
 'C06': ('exploration',
         'exhaustive input enumeration against a statement-derived oracle '
         '(E2) + Hypothesis-generated histories on real git (E1)',
         'E2+E1',
         'All 12 480 (status vector x bypass source x key x decoy) cells are '
         'enumerated on the real handle_comments/check_build_status; the '
         'history part replays generated push/report/evaluate sequences on a '
         'real repository and compares the job outcome with the harness own '
         'status table.',
         'git host replaced by fakes/mock; bounded to 4 integration branches',
         'DESIGN.md 4/C06'),
 'C07': ('exploration',
         'constructive Hypothesis grammar of comment lists with known ground '
         'truth + raw-text Hypothesis + atheris (thorough) with the safety '
         'oracle in the target',
         'E2',
         'Comment lists of length <= 3 over every registered option/command, '
         'address form, separator and poster run through the real '
         'handle_comments; safety / blocking / inert oracles from the '
         'statement, open cells counted as EITHER.',
         'scripted pull request; per-author and command-line sources covered '
         'by C04/C06',
         'DESIGN.md 4/C07'),
 'C08': ('exploration',
         'Hypothesis-generated histories + harness-owned schedule placement '
         'of third-party actions before every push of a job; journal oracle',
         'E1',
         'For sampled jobs of generated histories every (push index, '
         'third-party action) placement is executed from a snapshot, plus '
         'placements before the other commands that talk to the remote, one '
         'run per failing network command and one per rejected ref; the '
         'reference-transaction journal of the remote must show only '
         'fast-forwards on destinations and no change outside w/ q/ tmp/.',
         'third-party actions are placed between git commands, not inside '
         'one; bounded histories',
         'DESIGN.md 4/C08'),
 'C10': ('exploration',
         'Hypothesis-generated histories with twin runs (fresh vs long-lived '
         'instance from one snapshot), triple re-delivery, handler-wrapping '
         'execution counter',
         'E1',
         'At generated points of generated histories an evaluation is '
         'compared between a fresh and the long-lived instance and repeated '
         'three times; adjacent duplicate robot messages and command '
         're-execution are monitored after every job.',
         'in-tree mock host; logical clock makes twin runs bit-comparable',
         'DESIGN.md 4/C10'),
 'C13': ('exploration',
         'owned thread scheduler (settrace) with Hypothesis/PCT-generated '
         'schedules, exhaustive <=2-preemption enumeration in thorough; '
         'outcome sweep over exception classes; generated delivery/drain '
         'sequences through the Flask handlers with a pristine-application '
         'metamorphic oracle (part W)',
         'E3',
         'Real put_job/process_task/Job.__eq__ run in real threads under a '
         'line-granular scheduler; accepted deliveries must be followed by a '
         'later evaluation start; the worker must survive every outcome. '
         'Part W: what a delivery enqueues on a pristine application it must '
         'enqueue after any history of deliveries and evaluations.',
         'interleavings at source-line granularity inside bert_e.py/job.py; '
         'queue.Queue internals atomic per line; BaseExceptions out of domain',
         'DESIGN.md 4/C13'),
 'C14': ('exploration',
         'exhaustive HTTP matrix with the Flask test client against a '
         '(path, method)-keyed oracle table',
         'E4',
         'All 14 684 cells (routes from the live url_map x methods x sessions '
         'x parameters; webhooks x credentials x repository identity x event) '
         'are requested; refusals must be >=400/302 with an empty task queue, '
         'accepted cells must carry the validated parameters.',
         'BertE double as in tests/test_server.py; outgoing HTTP looped back',
         'DESIGN.md 4/C14'),
 'C15': ('exploration',
         'Hypothesis-generated histories around reset/force_reset with a '
         'harness-side record of manual commits as oracle',
         'E1',
         'Generated orders of source rewrites, destination moves and manual '
         'commits / merge commits on w/ branches precede reset; the outcome '
         'and the ref journal are compared with what the harness knows it '
         'created.',
         'cells that are neither lossy nor pristine are EITHER',
         'DESIGN.md 4/C15'),
 'C18': ('exploration',
         'exhaustive bounded grammar + Hypothesis raw text + atheris '
         '(thorough), differential against an independent recursive-descent '
         'classifier; constructor/parser round trip',
         'E2',
         '393k valid names of the bounded grammar and 264k (cascade, '
         'destination, pr id, source) triples through the real constructors '
         'are compared with a hand-written parser sharing no regex with the '
         'code.',
         'documented grammar as read from USER_DOC.md; silent cells EITHER',
         'DESIGN.md 4/C18'),
 'C19': ('exploration',
         'Hypothesis-generated histories with twin runs (child / commit event '
         'vs parent event) and ownership monitors over host state and journal',
         'E1',
         'Events on parents, children, source/w/q commits in generated order '
         'over the four always_create_* combinations; uniqueness, titles, '
         'cleanup on decline/merge and event-redirection twins are checked '
         'after every job.',
         'in-tree mock host; <= 3 PRs',
         'DESIGN.md 4/C19'),
 'C02': ('fault_enumeration',
         'enumeration of crash points and single rejected refs (from a dry '
         'run of each job) on Hypothesis-generated histories; recovery and '
         'differential comparison with the uninterrupted run',
         'E1',
         'For selected jobs of generated histories every crash-before / '
         'crash-after placement around each remote-mutating operation and '
         'every single-ref rejection (once, persistent) is executed from one '
         'snapshot on the real code and real git; all-or-none landing and the '
         'C01 chain are checked after every ref transaction; a fresh instance '
         'then recovers and destination trees are compared with the '
         'uninterrupted run under the same content-keyed CI policy.',
         'git ref transactions atomic; create/delete-branch jobs judged at the '
         'interrupted state only; quick tier samples faults per job',
         'DESIGN.md 4/C02'),
 'C03': ('exploration',
         'Hypothesis-generated queue histories with a generated status matrix '
         'prelude; monitor over the ref journal against the harness own CI '
         'table',
         'E1',
         'Every destination movement made by Bert-E in queue / skip-queue '
         'modes must land on a commit the harness itself reported SUCCESSFUL '
         '(force merge and bypassed direct merges exempt).',
         'in-tree mock host; bounded histories (<= 4 queued PRs)',
         'DESIGN.md 4/C03'),
 'C05': ('exploration',
         'exhaustive enumeration of queues x cascades x destination choices x '
         'status matrices on the real QueueCollection over an in-memory commit '
         'DAG; disagreements and a sample replayed on real git',
         'E2',
         'All queues of <= 3 PRs (quick) / 4 PRs on <= 12 queue commits '
         '(thorough) are compared with the longest-all-green-prefix oracle; '
         'metamorphic state-alphabet and add-order checks.',
         'git replaced by an in-memory DAG validated against real git on a '
         'sample; sub-spaces that are complete are listed in evidence',
         'DESIGN.md 4/C05'),
 'C09': ('exploration',
         'exhaustive single-major universes + seeded cross-major sample on '
         'the real BranchCascade against a statement-derived oracle '
         'self-tested on the 39 QuickTest tables; discovery-order metamorphic '
         'relation',
         'E2',
         'Branch sets x tag sets x destination, each in 3 discovery orders.',
         'fake repository object; EITHER cells counted',
         'DESIGN.md 4/C09'),
 'C11': ('exploration',
         'full product of source names x issue states x settings x bypass '
         'sources, and C09 cascades x fixVersions subsets, on the real '
         'jira_checks with a scripted JiraIssue',
         'E2',
         'First-failing-check oracle in documented order; thorough tier is '
         'the complete product.',
         'Jira replaced by a scripted class; x.y.z.0 EITHER',
         'DESIGN.md 4/C11'),
 'C12': ('exploration',
         'Hypothesis-generated hold scenarios with a never-held probe path '
         'from the pre-hold snapshot; foreign PR sweep',
         'E1',
         'While a hold is present no w/ or q/ ref is created for the PR and it '
         'is not merged; after the lift progress and ref shape equal the '
         'never-held world; foreign PRs leave host and refs untouched.',
         'holds added after queueing are statistics; non-numeric dependency '
         'EITHER',
         'DESIGN.md 4/C12'),
 'C16': ('fault_enumeration',
         'taint sentinel + enumeration of (git command, fail/hang) faults per '
         'job kind at DEBUG/INFO on real Bert-E with the production-shaped '
         'credentialed URL; Hypothesis-generated GitHub client flows over a '
         'scripted transport with failing answers',
         'E1+E4',
         'Every log record with its exception chain, fd-level stdout/stderr, '
         'job reports and comments are searched for the password in three '
         'encodings and for the JWT / installation token.',
         'only the listed encodings of the secret are searched; quick tier: '
         'one command per template',
         'DESIGN.md 4/C16'),
 'C17': ('exploration',
         'exhaustive ordered run lists grouped by multiset (permutation '
         'orbits) on the real AggregatedWorkflowRuns; exhaustive <=4/5-op '
         'cache histories + Hypothesis against an LRU model family',
         'E2/E4',
         'Aggregation verdict vs the literal statement and permutation '
         'invariance; cache answers vs host truth and stickiness of '
         'SUCCESSFUL until eviction, for the GitHub and Bitbucket classes.',
         'scripted HTTP transport; ranking of non-success conclusions EITHER',
         'DESIGN.md 4/C17'),
 'C20': ('exploration',
         'Hypothesis-generated states with queued PRs followed by generated '
         'admin jobs; independent well-formedness predicate and journal '
         'oracle',
         'E1',
         'create/delete branch, rebuild/delete/force-merge queues over 21 '
         'candidate names and generated branch_from values.',
         'jobs ending in unexpected exceptions are statistics',
         'DESIGN.md 4/C20'),
}

NA_REASON = 'check not built yet in this session (work in progress; see DESIGN.md section 8)'


def main():
    checks = []
    for pid in ALL:
        if pid not in CHECKS:
            continue
        level, tech, engine, text, note, ref = CHECKS[pid]
        checks.append({
            'property_id': pid,
            'quick_cmd': 'bin/check %s --tier quick' % pid,
            'thorough_cmd': 'bin/check %s --tier thorough' % pid,
            'evidence_file': 'evidence/%s.json' % pid,
            'replay_cmd_template': 'bin/check %s --replay {path}' % pid,
            'engine': engine,
            'level_claimed': {'category': level, 'text': text,
                              'design_ref': ref},
            'level_note': note,
            'technique': tech,
        })
    man = {
        'version': 1,
        'setup_cmd': "/venv/bin/python -c 'import hypothesis' || "
                     "/venv/bin/pip install --no-index --find-links "
                     "/opt/veriftools/wheels hypothesis",
        'hooks': {
            'guard': 'VERIF_BERT_E',
            'enable': 'no source hook is needed: all observation and '
                      'injection points are reached from outside '
                      '(mock host subclassing, git server-side hooks, '
                      'Popen wrapping, settrace); bin/check sets PYTHONPATH '
                      'to the working tree of /repo',
            'baseline_off_cmd': 'cd /repo && /venv/bin/python -m pytest -q '
                                '-p no:cacheprovider --timeout=900 '
                                '--continue-on-collection-errors',
            'source_commits': [],
            'add_only': True,
        },
        'engines': [
            {'name': 'E1', 'path': 'vf/sim',
             'kind_free_text': 'system simulator: real Bert-E + real git + '
                               'in-tree mock host, Hypothesis stateful'},
            {'name': 'E2', 'path': 'vf/checks',
             'kind_free_text': 'direct-call enumerators / Hypothesis '
                               'properties on the real functions'},
            {'name': 'E3', 'path': 'vf/sched',
             'kind_free_text': 'owned thread scheduler (settrace)'},
            {'name': 'E4', 'path': 'vf/web',
             'kind_free_text': 'Flask test client matrix'},
        ],
        'checks': checks,
        'notes': 'Every check: bin/check <ID> --tier quick|thorough; exit 0 '
                 'held, 1 VIOLATION, 2 harness error. VERIF_SEED honoured. '
                 'known_findings.json is read-only at run time (15 entries '
                 'fixed: they suppress nothing; 1 entry known: K1 on C15, '
                 'matched by signature {clause, w_shape}, printed as '
                 'KNOWN-FINDING on every run). Before generating, each '
                 'check replays the shrunk cases under regressions/<ID>/ '
                 '(repaired findings and caught seeded changes) with plain '
                 'Python. seeded/ holds 100 independently written breaking '
                 'changes with the result of our checks on each '
                 '(seeded/README.md); sensitivity/ holds own mutants.',
        'not_applicable': [{'property_id': p, 'reason': NA_REASON}
                           for p in ALL if p not in CHECKS],
    }
    with open(os.path.join(HERE, 'MANIFEST.json'), 'w') as f:
        json.dump(man, f, indent=1)
    print('MANIFEST.json: %d checks, %d not claimed' %
          (len(checks), len(man['not_applicable'])))


if __name__ == '__main__':
    main()
