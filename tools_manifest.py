#!/usr/bin/env python3
"""Regenerates MANIFEST.json from the table below (so it is always valid)."""
import json
import os

HERE = os.path.dirname(os.path.abspath(__file__))
ALL = ['C%02d' % i for i in range(1, 21)]

# pid -> (level, technique, engine, text, note, design_ref)
CHECKS = {
 'C01': ('exploration',
         'Hypothesis-generated histories on real Bert-E + real git; invariant '
         'monitor over the remote ref journal; collect-then-ddmin shrinking',
         'E1',
         'Generated histories (all rule kinds, 3 modes, octopus/no_octopus, '
         '1-4 destinations incl. stabilization / major-only / hotfix) are run '
         'by the real code against a real bare repository; the inclusion chain '
         '(computed from names) is checked after every ref transaction Bert-E '
         'makes on a destination and after every job. Bounded search, no '
         'absence claim.',
         'in-tree mock host; bounded history length (10-30 steps) and <= 4 PRs',
         'DESIGN.md 4/C01'),
 'C04': ('exploration',
         'exhaustive enumeration of the approval predicate against a '
         'statement-derived three-valued oracle',
         'E2',
         'Every tuple of the stated domain (11.7M quick / 49M thorough) is '
         'pushed through the real handle_comments + check_approvals on a real '
         'PullRequestJob; plus the settings-schema rule. Exhaustive for the '
         'stated universe.',
         'git host replaced by scripted fakes; EITHER cells listed in DESIGN.md',
         'DESIGN.md 4/C04'),
 'C06': ('exploration',
         'exhaustive input enumeration against a statement-derived oracle '
         '(E2) + Hypothesis-generated histories on real git (E1)',
         'E2+E1',
         'All 12 480 (status vector x bypass source x key x decoy) cells are '
         'enumerated on the real handle_comments/check_build_status; the '
         'history part replays generated push/report/evaluate sequences on a '
         'real repository and compares the job outcome with the harness own '
         'status table.',
         'git host replaced by fakes/mock; bounded to 4 integration branches',
         'DESIGN.md 4/C06'),
 'C07': ('exploration',
         'constructive Hypothesis grammar of comment lists with known ground '
         'truth + raw-text Hypothesis + atheris (thorough) with the safety '
         'oracle in the target',
         'E2',
         'Comment lists of length <= 3 over every registered option/command, '
         'address form, separator and poster run through the real '
         'handle_comments; safety / blocking / inert oracles from the '
         'statement, open cells counted as EITHER.',
         'scripted pull request; per-author and command-line sources covered '
         'by C04/C06',
         'DESIGN.md 4/C07'),
 'C08': ('exploration',
         'Hypothesis-generated histories + harness-owned schedule placement '
         'of third-party actions before every push of a job; journal oracle',
         'E1',
         'For sampled jobs of generated histories every (push index, '
         'third-party action) placement is executed from a snapshot; the '
         'reference-transaction journal of the remote must show only '
         'fast-forwards on destinations and no change outside w/ q/ tmp/.',
         'third-party actions are placed between git commands, not inside '
         'one; bounded histories',
         'DESIGN.md 4/C08'),
 'C10': ('exploration',
         'Hypothesis-generated histories with twin runs (fresh vs long-lived '
         'instance from one snapshot), triple re-delivery, handler-wrapping '
         'execution counter',
         'E1',
         'At generated points of generated histories an evaluation is '
         'compared between a fresh and the long-lived instance and repeated '
         'three times; adjacent duplicate robot messages and command '
         're-execution are monitored after every job.',
         'in-tree mock host; logical clock makes twin runs bit-comparable',
         'DESIGN.md 4/C10'),
 'C13': ('exploration',
         'owned thread scheduler (settrace) with Hypothesis/PCT-generated '
         'schedules, exhaustive <=2-preemption enumeration in thorough; '
         'outcome sweep over exception classes',
         'E3',
         'Real put_job/process_task/Job.__eq__ run in real threads under a '
         'line-granular scheduler; accepted deliveries must be followed by a '
         'later evaluation start; the worker must survive every outcome.',
         'interleavings at source-line granularity inside bert_e.py/job.py; '
         'queue.Queue internals atomic per line; BaseExceptions out of domain',
         'DESIGN.md 4/C13'),
 'C14': ('exploration',
         'exhaustive HTTP matrix with the Flask test client against a '
         '(path, method)-keyed oracle table',
         'E4',
         'All 14 684 cells (routes from the live url_map x methods x sessions '
         'x parameters; webhooks x credentials x repository identity x event) '
         'are requested; refusals must be >=400/302 with an empty task queue, '
         'accepted cells must carry the validated parameters.',
         'BertE double as in tests/test_server.py; outgoing HTTP looped back',
         'DESIGN.md 4/C14'),
 'C15': ('exploration',
         'Hypothesis-generated histories around reset/force_reset with a '
         'harness-side record of manual commits as oracle',
         'E1',
         'Generated orders of source rewrites, destination moves and manual '
         'commits / merge commits on w/ branches precede reset; the outcome '
         'and the ref journal are compared with what the harness knows it '
         'created.',
         'cells that are neither lossy nor pristine are EITHER',
         'DESIGN.md 4/C15'),
 'C18': ('exploration',
         'exhaustive bounded grammar + Hypothesis raw text + atheris '
         '(thorough), differential against an independent recursive-descent '
         'classifier; constructor/parser round trip',
         'E2',
         '393k valid names of the bounded grammar and 264k (cascade, '
         'destination, pr id, source) triples through the real constructors '
         'are compared with a hand-written parser sharing no regex with the '
         'code.',
         'documented grammar as read from USER_DOC.md; silent cells EITHER',
         'DESIGN.md 4/C18'),
 'C19': ('exploration',
         'Hypothesis-generated histories with twin runs (child / commit event '
         'vs parent event) and ownership monitors over host state and journal',
         'E1',
         'Events on parents, children, source/w/q commits in generated order '
         'over the four always_create_* combinations; uniqueness, titles, '
         'cleanup on decline/merge and event-redirection twins are checked '
         'after every job.',
         'in-tree mock host; <= 3 PRs',
         'DESIGN.md 4/C19'),
}

NA_REASON = 'check not built yet in this session (work in progress; see DESIGN.md section 8)'


def main():
    checks = []
    for pid in ALL:
        if pid not in CHECKS:
            continue
        level, tech, engine, text, note, ref = CHECKS[pid]
        checks.append({
            'property_id': pid,
            'quick_cmd': 'bin/check %s --tier quick' % pid,
            'thorough_cmd': 'bin/check %s --tier thorough' % pid,
            'evidence_file': 'evidence/%s.json' % pid,
            'replay_cmd_template': 'bin/check %s --replay {path}' % pid,
            'engine': engine,
            'level_claimed': {'category': level, 'text': text,
                              'design_ref': ref},
            'level_note': note,
            'technique': tech,
        })
    man = {
        'version': 1,
        'setup_cmd': "/venv/bin/python -c 'import hypothesis' || "
                     "/venv/bin/pip install --no-index --find-links "
                     "/opt/veriftools/wheels hypothesis",
        'hooks': {
            'guard': 'VERIF_BERT_E',
            'enable': 'no source hook is needed: all observation and '
                      'injection points are reached from outside '
                      '(mock host subclassing, git server-side hooks, '
                      'Popen wrapping, settrace); bin/check sets PYTHONPATH '
                      'to the working tree of /repo',
            'baseline_off_cmd': 'cd /repo && /venv/bin/python -m pytest -q '
                                '-p no:cacheprovider --timeout=900 '
                                '--continue-on-collection-errors',
            'source_commits': [],
            'add_only': True,
        },
        'engines': [
            {'name': 'E1', 'path': 'vf/sim',
             'kind_free_text': 'system simulator: real Bert-E + real git + '
                               'in-tree mock host, Hypothesis stateful'},
            {'name': 'E2', 'path': 'vf/checks',
             'kind_free_text': 'direct-call enumerators / Hypothesis '
                               'properties on the real functions'},
            {'name': 'E3', 'path': 'vf/sched',
             'kind_free_text': 'owned thread scheduler (settrace)'},
            {'name': 'E4', 'path': 'vf/web',
             'kind_free_text': 'Flask test client matrix'},
        ],
        'checks': checks,
        'notes': 'Every check: bin/check <ID> --tier quick|thorough; exit 0 '
                 'held, 1 VIOLATION, 2 harness error. VERIF_SEED honoured. '
                 'known_findings.json is read-only at run time.',
        'not_applicable': [{'property_id': p, 'reason': NA_REASON}
                           for p in ALL if p not in CHECKS],
    }
    with open(os.path.join(HERE, 'MANIFEST.json'), 'w') as f:
        json.dump(man, f, indent=1)
    print('MANIFEST.json: %d checks, %d not claimed' %
          (len(checks), len(man['not_applicable'])))


if __name__ == '__main__':
    main()
