#!/usr/bin/env python3
"""Regenerates MANIFEST.json from the table below (so it is always valid)."""
import json
import os

HERE = os.path.dirname(os.path.abspath(__file__))
ALL = ['C%02d' % i for i in range(1, 21)]

# pid -> (level, technique, engine, text, note, design_ref)
CHECKS = {
 'C06': ('exploration',
         'exhaustive input enumeration against a statement-derived oracle '
         '(E2) + Hypothesis-generated histories on real git (E1)',
         'E2+E1',
         'All 12 480 (status vector x bypass source x key x decoy) cells are '
         'enumerated on the real handle_comments/check_build_status; the '
         'history part replays generated push/report/evaluate sequences on a '
         'real repository and compares the job outcome with the harness own '
         'status table.',
         'git host replaced by fakes/mock; bounded to 4 integration branches',
         'DESIGN.md 4/C06'),
}

NA_REASON = 'check not built yet in this session (work in progress; see DESIGN.md section 8)'


def main():
    checks = []
    for pid in ALL:
        if pid not in CHECKS:
            continue
        level, tech, engine, text, note, ref = CHECKS[pid]
        checks.append({
            'property_id': pid,
            'quick_cmd': 'bin/check %s --tier quick' % pid,
            'thorough_cmd': 'bin/check %s --tier thorough' % pid,
            'evidence_file': 'evidence/%s.json' % pid,
            'replay_cmd_template': 'bin/check %s --replay {path}' % pid,
            'engine': engine,
            'level_claimed': {'category': level, 'text': text,
                              'design_ref': ref},
            'level_note': note,
            'technique': tech,
        })
    man = {
        'version': 1,
        'setup_cmd': "/venv/bin/python -c 'import hypothesis' || "
                     "/venv/bin/pip install --no-index --find-links "
                     "/opt/veriftools/wheels hypothesis",
        'hooks': {
            'guard': 'VERIF_BERT_E',
            'enable': 'no source hook is needed: all observation and '
                      'injection points are reached from outside '
                      '(mock host subclassing, git server-side hooks, '
                      'Popen wrapping, settrace); bin/check sets PYTHONPATH '
                      'to the working tree of /repo',
            'baseline_off_cmd': 'cd /repo && /venv/bin/python -m pytest -q '
                                '-p no:cacheprovider --timeout=900 '
                                '--continue-on-collection-errors',
            'source_commits': [],
            'add_only': True,
        },
        'engines': [
            {'name': 'E1', 'path': 'vf/sim',
             'kind_free_text': 'system simulator: real Bert-E + real git + '
                               'in-tree mock host, Hypothesis stateful'},
            {'name': 'E2', 'path': 'vf/checks',
             'kind_free_text': 'direct-call enumerators / Hypothesis '
                               'properties on the real functions'},
            {'name': 'E3', 'path': 'vf/sched',
             'kind_free_text': 'owned thread scheduler (settrace)'},
            {'name': 'E4', 'path': 'vf/web',
             'kind_free_text': 'Flask test client matrix'},
        ],
        'checks': checks,
        'notes': 'Every check: bin/check <ID> --tier quick|thorough; exit 0 '
                 'held, 1 VIOLATION, 2 harness error. VERIF_SEED honoured. '
                 'known_findings.json is read-only at run time.',
        'not_applicable': [{'property_id': p, 'reason': NA_REASON}
                           for p in ALL if p not in CHECKS],
    }
    with open(os.path.join(HERE, 'MANIFEST.json'), 'w') as f:
        json.dump(man, f, indent=1)
    print('MANIFEST.json: %d checks, %d not claimed' %
          (len(checks), len(man['not_applicable'])))


if __name__ == '__main__':
    main()
