"""Runner: tiers, seeds, sharding, evidence, replay I/O, known findings.

Exit codes: 0 held / 1 violation (not known) / 2 harness error, inconclusive.
"""
import argparse
import hashlib
import importlib
import json
import multiprocessing as mp
import os
import sys
import time
import traceback
from collections import Counter

HOME = os.environ.get('VERIF_HOME', os.path.dirname(os.path.dirname(
    os.path.abspath(__file__))))
REPO = os.environ.get('VERIF_REPO', '/repo')
NPROC = int(os.environ.get('VERIF_NPROC', '16'))


def jhash(obj):
    return hashlib.sha1(json.dumps(obj, sort_keys=True, default=str)
                        .encode()).hexdigest()


class Violation:
    """One failing case.

    signature: small dict identifying the root cause class (matched against
    known_findings.json); case: JSON value that --replay can re-execute.
    """
    def __init__(self, message, case, signature=None):
        self.message = message
        self.case = case
        self.signature = signature or {}

    def to_json(self):
        return {'message': self.message, 'case': self.case,
                'signature': self.signature}

    @staticmethod
    def from_json(d):
        return Violation(d['message'], d['case'], d.get('signature'))


class Acc:
    """Per-shard accumulator, merged by the parent."""
    def __init__(self):
        self.evaluations = 0
        self.nontrivial = set()
        self.classes = Counter()
        self.samples = []
        self._nt_samples = 0
        self._t_samples = 0
        self.violations = []
        self.notes = []
        self.extra = {}

    def case(self, key, nontrivial, sample=None, classes=()):
        """Count one evaluated case. key: hashable/JSON normal form."""
        self.evaluations += 1
        if nontrivial:
            self.nontrivial.add(key if isinstance(key, (str, int))
                                else jhash(key))
        for c in classes:
            self.classes[c] += 1
        if sample is not None:
            # keep a couple of arbitrary cases and prefer non-trivial ones
            if nontrivial and self._nt_samples < 3:
                self._nt_samples += 1
                self.samples.append([1, sample])
            elif not nontrivial and self._t_samples < 1:
                self._t_samples += 1
                self.samples.append([0, sample])

    def cls(self, name, n=1):
        self.classes[name] += n

    def violation(self, message, case, signature=None):
        if len(self.violations) < 50:
            self.violations.append(Violation(message, case, signature))
        self.classes['violations_seen'] += 1

    def dump(self):
        return {'evaluations': self.evaluations,
                'nontrivial': list(self.nontrivial),
                'classes': dict(self.classes), 'samples': self.samples,
                'violations': [v.to_json() for v in self.violations],
                'notes': self.notes, 'extra': self.extra}

    def merge_dump(self, d):
        self.evaluations += d['evaluations']
        self.nontrivial.update(d['nontrivial'])
        self.classes.update(d['classes'])
        for s in d['samples']:
            if s not in self.samples and \
                    sum(1 for x in self.samples if x[0] == s[0]) < 4:
                self.samples.append(s)
        self.violations.extend(Violation.from_json(v)
                               for v in d['violations'])
        self.notes.extend(d['notes'])
        for k, v in d['extra'].items():
            if isinstance(v, (int, float)) and not isinstance(v, bool):
                self.extra[k] = self.extra.get(k, 0) + v
            elif isinstance(v, bool):
                self.extra[k] = self.extra.get(k, True) and v
            elif isinstance(v, list):
                self.extra.setdefault(k, [])
                for x in v:
                    if x not in self.extra[k] and len(self.extra[k]) < 40:
                        self.extra[k].append(x)
            else:
                self.extra[k] = v


class HarnessError(Exception):
    pass


def _worker(args):
    modname, fn, ctx, shard = args
    try:
        mod = importlib.import_module(modname)
        acc = Acc()
        getattr(mod, fn)(ctx, shard, acc)
        return ('ok', acc.dump())
    except BaseException:
        return ('err', traceback.format_exc())


def run_shards(modname, fn, ctx, shards, nproc=None):
    """Run mod.fn(ctx, shard, acc) for every shard in a fork pool and merge.

    shards: list of JSON-able shard descriptors."""
    nproc = min(nproc or NPROC, max(1, len(shards)))
    total = Acc()
    jobs = [(modname, fn, ctx, s) for s in shards]
    if nproc == 1:
        results = map(_worker, jobs)
    else:
        pool = mp.get_context('fork').Pool(nproc)
        results = pool.imap_unordered(_worker, jobs, chunksize=1)
    errs = []
    for status, payload in results:
        if status == 'ok':
            total.merge_dump(payload)
        else:
            errs.append(payload)
    if nproc != 1:
        pool.close()
        pool.join()
    if errs:
        raise HarnessError('shard failed:\n' + errs[0])
    return total


def load_known(pid):
    path = os.path.join(HOME, 'known_findings.json')
    if not os.path.exists(path):
        return []
    with open(path) as f:
        data = json.load(f)
    return [e for e in data.get('findings', [])
            if e.get('property') == pid and e.get('status') == 'known']


def matches(entry, violation):
    sig = entry.get('match', {})
    return bool(sig) and all(violation.signature.get(k) == v
                             for k, v in sig.items())


def write_replay(pid, violation):
    d = os.path.join(HOME, 'replays', pid)
    os.makedirs(d, exist_ok=True)
    body = {'property': pid, 'message': violation.message,
            'signature': violation.signature, 'case': violation.case}
    path = os.path.join(d, jhash(body)[:16] + '.json')
    with open(path, 'w') as f:
        json.dump(body, f, indent=1, sort_keys=True, default=str)
    return path


def finish(pid, mod, ctx, acc, t0):
    """Write evidence, apply the known-findings protocol, return exit code."""
    known = load_known(pid)
    new, hit = [], Counter()
    for v in acc.violations:
        for e in known:
            if matches(e, v):
                hit[e['id']] += 1
                break
        else:
            new.append(v)
    new.sort(key=lambda v: (len(json.dumps(v.case, default=str)),
                            json.dumps(v.case, sort_keys=True, default=str)))
    cov = {
        'evaluations': acc.evaluations,
        'distinct_nontrivial': len(acc.nontrivial),
        'rule': getattr(mod, 'RULE', ''),
        'samples': [x[1] for x in sorted(acc.samples, key=lambda x: -x[0])][:6],
        'classes': dict(sorted(acc.classes.items())),
        'known_findings_excluded': dict(hit),
    }
    cov.update(acc.extra)
    ev = {
        'property_id': pid, 'tier': ctx['tier'], 'seed': ctx['seed'],
        'level': getattr(mod, 'LEVEL', 'exploration'), 'coverage': cov,
        'assumptions': list(getattr(mod, 'ASSUMPTIONS', [])) + acc.notes[:10],
        'wall_s': round(time.time() - t0, 2),
        'violations': len(new),
    }
    os.makedirs(os.path.join(HOME, 'evidence'), exist_ok=True)
    with open(os.path.join(HOME, 'evidence', pid + '.json'), 'w') as f:
        json.dump(ev, f, indent=1, sort_keys=True, default=str)
    for e in known:
        if hit[e['id']]:
            print('KNOWN-FINDING: property=%s %s (%d cases this run)' %
                  (pid, e['what'], hit[e['id']]))
    if new:
        seen = set()
        for v in new:
            k = jhash(v.signature) if v.signature else jhash(v.case)
            if k in seen:
                continue
            seen.add(k)
            path = write_replay(pid, v)
            print('VIOLATION property=%s replay=%s' % (pid, path))
            print('  ' + v.message.replace('\n', '\n  ')[:2000])
            if len(seen) >= 5:
                break
        return 1
    print('OK property=%s tier=%s seed=%d evaluations=%d nontrivial=%d '
          'wall=%.1fs' % (pid, ctx['tier'], ctx['seed'], acc.evaluations,
                          len(acc.nontrivial), time.time() - t0))
    return 0


def _replay_one(args):
    modname, ctx, path = args
    try:
        mod = importlib.import_module(modname)
        with open(path) as f:
            body = json.load(f)
        acc = Acc()
        mod.replay(ctx, body['case'], acc)
        return ('ok', path, [v.to_json() for v in acc.violations])
    except BaseException:
        return ('err', path, traceback.format_exc())


def replay_regressions(pid, mod, ctx):
    """Seconds-long replay tier: the shrunk cases of every repaired finding
    and of every seeded change this check once caught (regressions/<ID>/),
    re-executed by plain Python before any generation."""
    d = os.path.join(HOME, 'regressions', pid)
    t0 = time.time()
    files = sorted(os.path.join(d, f) for f in os.listdir(d)
                   if f.endswith('.json')) if os.path.isdir(d) else []
    out = {'n': len(files), 'violations': [], 'wall_s': 0.0}
    if not files:
        return out
    jobs = [(mod.__name__, ctx, f) for f in files]
    pool = mp.get_context('fork').Pool(min(ctx['nproc'], len(jobs)))
    try:
        results = pool.map(_replay_one, jobs, chunksize=1)
    finally:
        pool.close()
        pool.join()
    for status, path, payload in results:
        if status == 'err':
            raise HarnessError('regression replay %s failed:\n%s' %
                               (path, payload))
        for v in payload:
            vv = Violation.from_json(v)
            vv.message = 'regression case %s: %s' % (
                os.path.relpath(path, HOME), vv.message)
            out['violations'].append(vv)
    out['wall_s'] = round(time.time() - t0, 1)
    return out


def main(argv=None):
    ap = argparse.ArgumentParser()
    ap.add_argument('pid')
    ap.add_argument('--tier', default=os.environ.get('VERIF_TIER', 'quick'),
                    choices=['quick', 'thorough'])
    ap.add_argument('--replay')
    ap.add_argument('--nproc', type=int, default=NPROC)
    args = ap.parse_args(argv)
    pid = args.pid.upper()
    seed = int(os.environ.get('VERIF_SEED', '1') or 1)
    ctx = {'tier': args.tier, 'seed': seed, 'repo': REPO, 'home': HOME,
           'nproc': args.nproc}
    t0 = time.time()
    try:
        mod = importlib.import_module('vf.checks.' + pid.lower())
        if args.replay:
            with open(args.replay) as f:
                body = json.load(f)
            acc = Acc()
            mod.replay(ctx, body['case'], acc)
            if acc.violations:
                known = load_known(pid)
                for v in acc.violations:
                    k = [e for e in known if matches(e, v)]
                    if k:
                        print('KNOWN-FINDING: property=%s %s' %
                              (pid, k[0]['what']))
                    else:
                        print('VIOLATION property=%s replay=%s' %
                              (pid, args.replay))
                        print('  ' + v.message[:2000])
                        return 1
                return 0
            print('replay: property held on this case')
            return 0
        reg = replay_regressions(pid, mod, ctx)
        acc = mod.run(ctx)
        if acc.evaluations == 0:
            raise HarnessError('no case was evaluated')
        acc.violations.extend(reg['violations'])
        acc.extra['regression_cases_replayed'] = reg['n']
        acc.extra['regression_replay_wall_s'] = reg['wall_s']
        return finish(pid, mod, ctx, acc, t0)
    except HarnessError as e:
        print('HARNESS-ERROR property=%s: %s' % (pid, e))
        return 2
    except Exception:
        print('HARNESS-ERROR property=%s' % pid)
        traceback.print_exc()
        return 2


if __name__ == '__main__':
    sys.exit(main())
