"""C14 HTTP entry points enqueue work only for authorised callers.

Engine E4: the real ``server.setup_server`` application around a BertE double
(real settings, real job classes, real task queue), driven by Flask's test
client.  Every outgoing HTTP request of the code under test goes through one
patched ``requests.adapters.HTTPAdapter.send``:

* ``http://localhost/...`` (the call a management form makes to the API) is
  looped back into the same application, headers and body untouched;
* ``api.github.com`` / ``api.bitbucket.org`` are a small scripted git host
  (user profile for /api/auth, pull request lookup for issue_comment events,
  workflow runs for check_suite events);
* anything else is a connection error (there is no network).

The oracle is the table ``TABLE`` keyed by URL rule and HTTP method, written
from the statement of C14 and docs/API_DOC.md.  It never looks at the view
classes, their ``admin`` attribute or the regular expressions of the code.
"""
import base64
import copy
import json
import os
import re
import shutil
import tempfile
from collections import deque
from queue import Queue
from types import SimpleNamespace
from urllib.parse import quote, urlsplit, parse_qs

from vf.cli import HarnessError, run_shards

LEVEL = 'exploration'
RULE = (
    'Exhaustive matrix (same in both tiers, independent of the seed). API: '
    'every (rule, method) of app.url_map under /api, /form, /manage plus '
    'every rule that accepts a non-GET method, instantiated with well-formed '
    'and ill-formed path parameters (branch names and pr ids around the '
    'documented grammar) and request bodies (JSON object with/without '
    'branch_from of every JSON type, no body, non-JSON, non-object JSON) x '
    '{GET,POST,PUT,PATCH,DELETE} x session {none,user,admin} x host '
    '{github,bitbucket}; management forms x session x CSRF token {own, '
    'missing, foreign, garbage} x field values, the form\'s API call looped '
    'back into the app; /api/auth login flow x token {absent, empty, bad, '
    'user, admin} followed by an admin-only request; webhooks: route x host '
    'x credentials (15 variants: none, right, wrong user, wrong password, '
    'swapped, prefixes, other schemes...) x repository identity {match, '
    'other owner, other slug, both, swapped, missing} x handled / ignored / '
    'unhandled events (22 GitHub, 19 Bitbucket variants), other methods and '
    'API sessions on the webhook routes. Non-trivial = cell of a (rule, method) that '
    'can enqueue and whose verdict is ACCEPT, or REFUSE because of session, '
    'admin flag, parameter validity, credentials or repository identity; '
    'EITHER cells are not counted. Distinct by the full cell tuple.')
ASSUMPTIONS = [
    'BertE double: real settings/jobs/task queue, no git repository, no '
    'worker thread (jobs are observed in task_queue, never executed)',
    'git host and OAuth provider replaced by a scripted HTTPAdapter.send; '
    'session files redirected to a private scratch directory',
    'sessions {user, admin} are installed with session_transaction exactly '
    'as _handle_authorize stores them (also obtained through /api/auth in '
    'the login cells)',
    'CSRF validity is not part of the statement: an authorised form post '
    'with a missing/foreign token is an EITHER cell',
    'extra JSON keys in a request body are not asserted on (documented '
    'omission in DESIGN.md)',
]

OWNER, SLUG = 'own-org', 'the-repo'
OTHER_OWNER, OTHER_SLUG = 'other-org', 'other-repo'
HOOK_LOGIN, HOOK_PWD = 'hook-login', 'hook-pwd'
USER, ADMIN = 'test_user', 'test_admin'
HOSTS = ('github', 'bitbucket')
METHODS = ('GET', 'POST', 'PUT', 'PATCH', 'DELETE')
SESSIONS = ('none', 'user', 'admin')
JSON_CT = 'application/json'
SHA_A = 'b97b433b41405f157c51ca1336c21583413b87f3'
SHA_B = '0123456789abcdef0123456789abcdef01234567'

# --------------------------------------------------------------------------
# Oracle table: (url rule, method) -> what the statement / API_DOC.md allow.
#   kind 'enqueue': may create exactly one job of class `job` carrying
#       `params`, for a session satisfying `need` ('user' | 'admin').
#       need_open=True: the docs do not say whether a plain user may
#       (EITHER for session=user, still refused without a session).
#   kind 'read'  : never enqueues; refused without a session (401 in docs).
#   kind 'login' : /api/auth; never enqueues.
#   kind 'form'  : management form in front of the API row `via`.
#   kind 'hook'  : webhook route of git host `host`.
# --------------------------------------------------------------------------
R_AUTH = '/api/auth'
R_JOBS = '/api/jobs'
R_JOB = '/api/jobs/<string:job_id>'
R_PR = '/api/pull-requests/<int:pr_id>'
R_BRANCH = '/api/gwf/branches/<path:branch>'
R_QUEUES = '/api/gwf/queues'

TABLE = {
    (R_AUTH, 'GET'): {'kind': 'login'},
    (R_JOBS, 'GET'): {'kind': 'read'},
    (R_JOB, 'GET'): {'kind': 'read'},
    (R_PR, 'POST'): {'kind': 'enqueue', 'need': 'user',
                     'job': 'EvalPullRequestJob', 'params': ('pr_id',)},
    (R_BRANCH, 'POST'): {'kind': 'enqueue', 'need': 'admin',
                         'job': 'CreateBranchJob',
                         'params': ('branch', 'branch_from')},
    (R_BRANCH, 'DELETE'): {'kind': 'enqueue', 'need': 'admin',
                           'job': 'DeleteBranchJob', 'params': ('branch',)},
    # "Rebuild" is not in the statement's admin list and API_DOC.md does not
    # say which level it needs: user => EITHER, admin => accepted.
    (R_QUEUES, 'POST'): {'kind': 'enqueue', 'need': 'user', 'need_open': True,
                         'job': 'RebuildQueuesJob', 'params': ()},
    (R_QUEUES, 'PATCH'): {'kind': 'enqueue', 'need': 'admin',
                          'job': 'ForceMergeQueuesJob', 'params': ()},
    (R_QUEUES, 'DELETE'): {'kind': 'enqueue', 'need': 'admin',
                           'job': 'DeleteQueuesJob', 'params': ()},
    ('/form/EvalPullRequestForm', 'POST'): {'kind': 'form',
                                            'via': (R_PR, 'POST')},
    ('/form/CreateBranchForm', 'POST'): {'kind': 'form',
                                         'via': (R_BRANCH, 'POST')},
    ('/form/DeleteBranchForm', 'POST'): {'kind': 'form',
                                         'via': (R_BRANCH, 'DELETE')},
    ('/form/ForceMergeQueuesForm', 'POST'): {'kind': 'form',
                                             'via': (R_QUEUES, 'PATCH')},
    ('/form/RebuildQueuesForm', 'POST'): {'kind': 'form',
                                          'via': (R_QUEUES, 'POST')},
    ('/form/DeleteQueuesForm', 'POST'): {'kind': 'form',
                                         'via': (R_QUEUES, 'DELETE')},
    ('/manage', 'GET'): {'kind': 'read'},
    ('/manage/<string:error>', 'GET'): {'kind': 'read'},
    ('/bitbucket', 'POST'): {'kind': 'hook', 'host': 'bitbucket'},
    ('/github', 'POST'): {'kind': 'hook', 'host': 'github'},
}
SCOPED_PREFIXES = ('/api', '/form', '/manage')

# ---- parameter grammars (from API_DOC.md, not from the code) --------------
_ASCII_DEV = re.compile(r'development/[0-9]+\.[0-9]+\Z')
_ASCII_STAB = re.compile(r'stabilization/[0-9]+\.[0-9]+\.[0-9]+\Z')
_ASCII_HOTFIX = re.compile(r'hotfix/[0-9]+\.[0-9]+\.[0-9]+\Z')
_ASCII_DEV_MAJOR = re.compile(r'development/[0-9]+\Z')
_UNI_BRANCH = re.compile(
    r'(development/\d+(\.\d+)?|(stabilization|hotfix)/\d+\.\d+\.\d+)\Z')


def classify_branch(b):
    """valid: documented destination branch names; open: names the docs are
    silent about but the workflow knows (hotfix/x.y.z, development/x) or
    that differ from a valid name only by non-ASCII digits; else invalid."""
    if _ASCII_DEV.match(b) or _ASCII_STAB.match(b):
        return 'valid'
    if _ASCII_HOTFIX.match(b) or _ASCII_DEV_MAJOR.match(b):
        return 'open'
    if _UNI_BRANCH.match(b):
        return 'open'
    return 'invalid'


def classify_branch_from(v):
    if v is None:
        return 'open'             # {"branch_from": null} ~ not specified
    if not isinstance(v, str):
        return 'invalid'
    if v == '':
        return 'open'
    if re.match(r'[0-9a-f]{7,40}\Z', v) or _ASCII_DEV.match(v):
        return 'valid'
    if re.match(r'[0-9a-fA-F]+\Z', v):
        return 'open'             # upper case, very short or very long hex
    if _ASCII_DEV_MAJOR.match(v) or re.match(r'development/\d+(\.\d+)?\Z', v):
        return 'open'
    s = v.strip()
    if s != v and classify_branch_from(s) in ('valid', 'open'):
        return 'open'             # whitespace variants: EITHER (DESIGN.md)
    return 'invalid'


def classify_pr(s):
    """s: the pr id as the caller wrote it (url segment or form field)."""
    if re.match(r'[1-9][0-9]*\Z', s):
        return 'valid' if int(s) < 2 ** 31 else 'open'
    if re.match(r'\d+\Z', s):
        try:
            return 'open' if int(s) >= 1 else 'invalid'   # 01, unicode digits
        except ValueError:
            return 'invalid'
    t = s.strip()
    if t != s and classify_pr(t) != 'invalid':
        return 'open'
    return 'invalid'


BRANCHES = [
    # documented
    'development/4.3', 'development/10.0', 'stabilization/4.3.1',
    # docs silent
    'hotfix/4.3.1', 'development/4', 'development/٤.٣',
    # ill-formed around the grammar
    'development/4.3/extra', 'development/4.3.1', 'development/4.',
    'development/.3', 'development/', 'development', 'development/4.3_',
    'development/4.x', 'development/-4.3', 'Development/4.3',
    'stabilization/4.3', 'stabilization/4.3.1.2', 'stabilization/4',
    'hotfix/4.3', 'hotfix/4.3.1.2', 'w/4.3/feature/x', 'w/development/4.3',
    'w/4.3', 'q/4.3', 'q/w/1/4.3/feature/x', 'feature/TEST-1', 'foo/4.3',
    'release/4.3', 'user/development/4.3', '../development/4.3',
    'development/4.3 ', 'development/4.3\n', ' development/4.3',
    'development/4.3\t', 'development/4.3\r\n', 'development/4.3\x00',
    'stabilization/4.3.1\n', 'development/4.3;id', '--upload-pack=x',
    # a well-formed name followed by slashes (the <path:> converter keeps
    # them: what is validated must be what the job carries)
    'development/4.3/', 'stabilization/4.3.1/', 'hotfix/4.3.1//',
    'development/4/',
    # (a leading or doubled slash never reaches the application: the router
    # answers 308 to the merged path; not an input of the endpoints)
]


def _near_grammar(names, subs=('/', '-', 'x', ' ', '_', '7', '', ':', '..',
                               ',')):
    """Every documented name with each of its separators replaced in turn
    by another character (a one-character slip in the validating regular
    expression shows here and nowhere else)."""
    out = []
    for name in names:
        for i, ch in enumerate(name):
            if ch not in './':
                continue
            for sub in subs:
                if sub == ch:
                    continue
                cand = name[:i] + sub + name[i + 1:]
                if cand not in out and cand not in names:
                    out.append(cand)
    return out


BRANCHES += [b for b in _near_grammar(
    ['development/4.3', 'stabilization/4.3.1', 'hotfix/4.3.1'])
    if b not in BRANCHES]

PR_IDS = ['1', '7', '1337', '2147483647',
          '99999999999999999999999', '01', '１',
          '0', '00', '-1', '-0', '+1', 'abc', '1.5', '1e3', '0x10', '',
          ' 1', '1 ', '1\n', '1/extra', '1;2']
JOB_IDS = ['@existing', 'no-such-job', 'a/b']
BRANCH_FROMS = [
    # (label, json value)
    ('sha7', 'abc1234'), ('sha11', '12345abcdef'), ('sha40', SHA_A),
    ('dev', 'development/4.3'),
    ('empty', ''), ('null', None), ('upper', 'ABCDEF12'), ('short', 'a'),
    ('dev-major', 'development/4'),
    ('nl', 'abc1234\n'), ('dev-nl', 'development/4.3\n'),
    ('lead-sp', ' abc1234'), ('trail-sp', 'abc1234 '), ('tab', 'abc1234\t'),
    ('word', 'invalid'), ('stab', 'stabilization/4.3.0'),
    ('w', 'w/4.3/feature/x'), ('inner-sp', 'abc 1234'),
    ('shell', 'abc1234; rm -rf x'), ('opt', '--upload-pack=x'),
    ('dash', '-x'), ('caret', 'abc1234^'), ('head', 'HEAD'),
    ('dev-extra', 'development/4.3/extra'), ('dots', 'abc1234..def5678'),
    ('int', 123), ('float', 1.5), ('true', True), ('false', False),
    ('list', ['abc1234']), ('dict', {'sha': 'abc1234'}), ('zero', 0),
]


def bodies():
    """(label, content type, raw body or None)."""
    out = [
        ('obj-empty', JSON_CT, '{}'),
        ('extra-key', JSON_CT, '{"bypass_build_status": true}'),
        # body keys named like the URL parameters: the validated URL value
        # is what the job must carry
        ('shadow-branch', JSON_CT, '{"branch": "refs/heads/feature/x"}'),
        ('shadow-pr', JSON_CT, '{"pr_id": -12}'),
        ('shadow-both', JSON_CT,
         '{"branch": "w/4.3/feature/x", "pr_id": 0, "branch_from": "abc1234"}'),
        ('no-body-no-ct', None, None),
        ('no-body-json-ct', JSON_CT, None),
        ('garbage', JSON_CT, 'not json{'),
        ('json-in-text', 'text/plain', '{"branch_from": "abc1234"}'),
        ('form-encoded', 'application/x-www-form-urlencoded',
         'branch_from=abc1234'),
        ('json-null', JSON_CT, 'null'),
        ('json-list', JSON_CT, '[]'),
        ('json-int', JSON_CT, '5'),
        ('json-str', JSON_CT, '"abc1234"'),
        ('json-list-bf', JSON_CT, '["branch_from"]'),
    ]
    for label, v in BRANCH_FROMS:
        out.append(('bf-' + label, JSON_CT, json.dumps({'branch_from': v})))
    return out


BODIES = bodies()
BODY_BY_LABEL = {b[0]: b for b in BODIES}


def body_class(row, ct, raw):
    """-> (validity, expected branch_from: ('is', v) | ('absent',) | None)"""
    if ct != JSON_CT or raw is None:
        return 'open', None
    try:
        obj = json.loads(raw)
    except ValueError:
        return 'open', None
    if not isinstance(obj, dict):
        return 'open', None
    if 'branch_from' not in row.get('params', ()):
        return 'valid', None
    if 'branch_from' not in obj:
        return 'valid', ('absent',)
    return classify_branch_from(obj['branch_from']), ('is', obj['branch_from'])


# --------------------------------------------------------------------------
# Environment
# --------------------------------------------------------------------------
class Env:
    """One application per host, private scratch, patched network."""

    def __init__(self):
        self.scratch = tempfile.mkdtemp(prefix='vf-c14-')
        self.apps = {}
        self.current = None          # (app, berte) serving loop-back calls
        self.net_log = []
        self._patch()

    # -- wiring -------------------------------------------------------------
    def _patch(self):
        import requests.adapters
        import bert_e.server.session as bsession
        env = self
        os.environ.update({
            'WEBHOOK_LOGIN': HOOK_LOGIN, 'WEBHOOK_PWD': HOOK_PWD,
            'BERT_E_CLIENT_ID': 'client-id',
            'BERT_E_CLIENT_SECRET': 'client-secret'})
        for k in ('APP_PREFIX', 'APP_SCHEME', 'APP_SERVER'):
            os.environ.pop(k, None)
        self._orig_send = requests.adapters.HTTPAdapter.send
        self._orig_session = bsession.Session
        real_session = bsession.Session
        if getattr(real_session, '_vf_wrapped', None):
            real_session = real_session._vf_wrapped

        def session_factory(app):
            # same code, other directory (the repo hard-codes /tmp/...)
            app.config['SESSION_FILE_DIR'] = env.scratch
            return real_session(app)
        session_factory._vf_wrapped = real_session
        bsession.Session = session_factory

        def send(adapter, request, **kw):
            return env.net(request)
        requests.adapters.HTTPAdapter.send = send

        # bert_e is imported from a source tree, not installed: the lookup of
        # its version for the page footer rescans sys.path on every render
        # (12 ms) before it falls back to 'unset_version'. Fail at once.
        import bert_e.server as bserver
        self._orig_dist = bserver.get_distribution

        def no_distribution(name):
            raise LookupError(name)
        bserver.get_distribution = no_distribution

    def close(self):
        import requests.adapters
        import bert_e.server.session as bsession
        import bert_e.server as bserver
        requests.adapters.HTTPAdapter.send = self._orig_send
        bsession.Session = self._orig_session
        bserver.get_distribution = self._orig_dist
        shutil.rmtree(self.scratch, ignore_errors=True)

    def app(self, host):
        if host not in self.apps:
            self.apps[host] = self._build(host)
        return self.apps[host]

    def _build(self, host):
        from bert_e import bert_e as bert_e_mod, server
        from bert_e.git_host import bitbucket, github
        from vf import stubs

        class BertEDouble(bert_e_mod.BertE):
            def __init__(self):
                self.settings = stubs.load_settings(
                    repository_host=host, repository_owner=OWNER,
                    repository_slug=SLUG, admins=[ADMIN, 'test_admin_2'])
                if host == 'github':
                    self.client = github.Client('robot', 'robot-pw',
                                                'robot@example.com')
                else:
                    self.client = bitbucket.Client('robot', 'robot-pw',
                                                   'robot@example.com')
                self.project_repo = SimpleNamespace(
                    owner=OWNER, slug=SLUG,
                    full_name='%s/%s' % (OWNER, SLUG))
                self.git_repo = SimpleNamespace()
                self.task_queue = Queue()
                self.tasks_done = deque(maxlen=1000)
                self.status = {}

        berte = BertEDouble()
        app = server.setup_server(berte)
        check_url_map(app)
        # one finished job so that GET /api/jobs/<id> has a well-formed id
        from bert_e.job import CommitJob
        done = CommitJob(bert_e=berte, commit=SHA_B)
        done.status = 'NothingToDo'
        done.complete()
        berte.tasks_done.appendleft(done)
        berte._vf_done_id = str(done.id)
        return app, berte

    def reset(self, host):
        from bert_e.git_host import cache
        app, berte = self.app(host)
        with berte.task_queue.mutex:
            berte.task_queue.queue.clear()
            berte.task_queue.unfinished_tasks = 0
        while len(berte.tasks_done) > 1:
            berte.tasks_done.popleft()
        berte.status.clear()
        cache.BUILD_STATUS_CACHE.clear()
        qc = getattr(berte.client, 'query_cache', None)
        if qc is not None:
            qc.clear()
        self.current = (app, berte)
        self.net_log = []
        # server-side session files of earlier cells (cachelib prunes by
        # reading every file once there are more than 500 of them)
        for name in os.listdir(self.scratch):
            try:
                os.unlink(os.path.join(self.scratch, name))
            except OSError:
                pass
        return app, berte

    def client(self, host, session):
        app, berte = self.app(host)
        c = app.test_client()
        if session != 'none':
            with c.session_transaction() as s:
                if s.get('user') is not None or s.get('admin') is not None:
                    raise HarnessError('fresh test client has a session')
                s['user'] = USER if session == 'user' else ADMIN
                s['admin'] = session == 'admin'
        return c

    # -- scripted network ---------------------------------------------------
    def net(self, prep):
        import requests
        u = urlsplit(prep.url)
        self.net_log.append('%s %s' % (prep.method, prep.url))
        if u.hostname == 'localhost':
            return self._loopback(prep, u)
        if u.hostname == 'api.github.com':
            return self._github(prep, u)
        if u.hostname == 'api.bitbucket.org':
            return self._bitbucket(prep, u)
        raise requests.exceptions.ConnectionError(
            'no network in the C14 harness: %s' % prep.url)

    @staticmethod
    def _resp(prep, status, body, ctype=JSON_CT):
        import datetime
        import requests
        r = requests.Response()
        r.status_code = status
        r._content = body if isinstance(body, bytes) else \
            json.dumps(body).encode()
        r.headers['Content-Type'] = ctype
        r.encoding = 'utf-8'
        r.url = prep.url
        r.request = prep
        r.reason = 'scripted'
        r.elapsed = datetime.timedelta(0)
        return r

    def _loopback(self, prep, u):
        app, _ = self.current
        c = app.test_client(use_cookies=False)
        headers = [(k, v) for k, v in prep.headers.items()
                   if k.lower() not in ('content-length', 'host')]
        body = prep.body
        if isinstance(body, str):
            body = body.encode()
        path = u.path + ('?' + u.query if u.query else '')
        resp = c.open(path, method=prep.method, headers=headers, data=body)
        return self._resp(prep, resp.status_code, resp.get_data(),
                          resp.headers.get('Content-Type', 'text/plain'))

    @staticmethod
    def _token_user(prep):
        auth = prep.headers.get('Authorization', '')
        m = re.match(r'(?i)(bearer|token)\s+(.*)\Z', auth)
        tok = m.group(2) if m else None
        return {'tok-user': USER, 'tok-admin': ADMIN}.get(tok)

    def _github(self, prep, u):
        if u.path == '/user':
            login = self._token_user(prep)
            if not login:
                return self._resp(prep, 401, {'message': 'Bad credentials'})
            return self._resp(prep, 200, {
                'id': 4242, 'login': login, 'name': login.title(),
                'email': login + '@example.com', 'type': 'User',
                'html_url': 'https://github.com/' + login,
                'avatar_url': 'https://avatars.example.com/' + login,
                'blog': '', 'updated_at': '2018-07-11T12:20:03Z'})
        m = re.match(r'/repos/([^/]+)/([^/]+)/pulls/(\d+)\Z', u.path)
        if m and prep.method == 'GET':
            return self._resp(prep, 200, gh_pull_request(
                int(m.group(3)), m.group(1), m.group(2)))
        m = re.match(r'/repos/([^/]+)/([^/]+)/actions/runs\Z', u.path)
        if m and prep.method == 'GET':
            sha = parse_qs(u.query).get('head_sha', [''])[0]
            # the sha's last character scripts the state of the runs
            concl, status = ('success', 'completed')
            if sha.endswith('e'):
                concl, status = (None, 'in_progress')
            elif sha.endswith('f'):
                concl, status = ('failure', 'completed')
            return self._resp(prep, 200, {
                'total_count': 1,
                'workflow_runs': [{
                    'id': 1, 'head_sha': sha, 'head_branch': 'feature/x',
                    'status': status, 'conclusion': concl,
                    'check_suite_id': 11, 'event': 'pull_request',
                    'workflow_id': 5,
                    'html_url': 'https://github.com/x/actions/runs/1',
                    'repository': gh_repo(m.group(1), m.group(2))}]})
        return self._resp(prep, 404, {'message': 'Not Found'})

    def _bitbucket(self, prep, u):
        login = self._token_user(prep)
        if u.path == '/2.0/user':
            if not login:
                return self._resp(prep, 401, {'type': 'error'})
            return self._resp(prep, 200, {
                'account_id': 'acc-' + login, 'username': login,
                'display_name': login.title(), 'location': None,
                'website': None, 'links': {'avatar': {'href': 'http://a/'}}})
        if u.path == '/2.0/user/emails':
            if not login:
                return self._resp(prep, 401, {'type': 'error'})
            return self._resp(prep, 200, {'values': [{
                'email': login + '@example.com', 'is_primary': True,
                'is_confirmed': True}]})
        return self._resp(prep, 404, {'type': 'error'})


def check_url_map(app):
    """Every scoped route must be in TABLE: a new route is a harness error
    (the oracle needs a row for it), never a violation."""
    missing = []
    for rule in app.url_map.iter_rules():
        methods = set(rule.methods or ()) - {'HEAD', 'OPTIONS'}
        scoped = rule.rule.startswith(SCOPED_PREFIXES) and \
            re.match(r'/(api|form|manage)(/|\Z)', rule.rule)
        for m in sorted(methods):
            if (scoped or m != 'GET') and (rule.rule, m) not in TABLE:
                missing.append('%s [%s] (endpoint %s)' %
                               (rule.rule, m, rule.endpoint))
    if missing:
        raise HarnessError(
            'route(s) not in the C14 oracle table - add a row to '
            'vf/checks/c14.py TABLE saying who may enqueue what there: '
            + '; '.join(missing))


# --------------------------------------------------------------------------
# Payloads
# --------------------------------------------------------------------------
def gh_user(login, id_=7):
    return {'id': id_, 'login': login, 'type': 'User'}


def gh_repo(owner, slug):
    return {'id': 99, 'name': slug, 'full_name': '%s/%s' % (owner, slug),
            'owner': {'id': 5, 'login': owner, 'type': 'Organization'},
            'private': True, 'description': None,
            'git_url': 'git://github.com/%s/%s.git' % (owner, slug),
            'clone_url': 'https://github.com/%s/%s.git' % (owner, slug),
            'default_branch': 'development/4.3'}


def gh_pull_request(number, owner, slug):
    repo = gh_repo(owner, slug)
    base = 'https://api.github.com/repos/%s/%s' % (owner, slug)
    return {
        'number': number, 'url': '%s/pulls/%d' % (base, number),
        'html_url': 'https://github.com/%s/%s/pull/%d' % (owner, slug, number),
        'comments_url': '%s/issues/%d/comments' % (base, number),
        'review_comments_url': '%s/pulls/%d/comments' % (base, number),
        'state': 'open', 'title': 'feature x', 'body': 'text',
        'user': gh_user('author'),
        'head': {'label': owner + ':feature/x', 'ref': 'feature/x',
                 'sha': SHA_A, 'user': gh_user(owner), 'repo': repo},
        'base': {'label': owner + ':development/4.3',
                 'ref': 'development/4.3', 'sha': SHA_B,
                 'user': gh_user(owner), 'repo': repo},
        'created_at': '2020-01-02T03:04:05Z',
        'updated_at': '2020-01-02T03:04:05Z',
        'closed_at': None, 'merged_at': None}


def identity(ident):
    """-> (owner, slug, keep_repository_key)"""
    return {
        'match': (OWNER, SLUG, True),
        'other-owner': (OTHER_OWNER, SLUG, True),
        'other-slug': (OWNER, OTHER_SLUG, True),
        'both-other': (OTHER_OWNER, OTHER_SLUG, True),
        'swapped': (SLUG, OWNER, True),
        'no-repository': (OWNER, SLUG, False),
    }[ident]


IDENTITIES = ('match', 'other-owner', 'other-slug', 'both-other', 'swapped',
              'no-repository')

# event variants: label -> (header value or None, payload kind, expectation)
# expectation: ('pr', id) / ('commit', sha): the job a handled event creates;
#   'ignored': handled but documented in the code as dropped (INPROGRESS,
#   closed) - EITHER; None: unhandled, nothing may be enqueued.
GH_EVENTS = [
    ('pr-opened', 'pull_request', ('pr_event', 'opened', 7), ('pr', 7)),
    ('pr-synchronize', 'pull_request', ('pr_event', 'synchronize', 1337),
     ('pr', 1337)),
    ('pr-edited', 'pull_request', ('pr_event', 'edited', 7), ('pr', 7)),
    ('pr-closed', 'pull_request', ('pr_event', 'closed', 7), 'ignored'),
    ('comment-on-pr', 'issue_comment', ('issue_comment', 12, True),
     ('pr', 12)),
    ('comment-on-issue', 'issue_comment', ('issue_comment', 12, False), None),
    ('review', 'pull_request_review', ('review', 'submitted', 9), ('pr', 9)),
    ('status-success', 'status', ('status', 'success', SHA_A),
     ('commit', SHA_A)),
    ('status-failure', 'status', ('status', 'failure', SHA_B),
     ('commit', SHA_B)),
    ('status-error', 'status', ('status', 'error', SHA_A), ('commit', SHA_A)),
    ('status-pending', 'status', ('status', 'pending', SHA_A), 'ignored'),
    ('check-suite-success', 'check_suite', ('check_suite', SHA_A[:-1] + '0'),
     ('commit', SHA_A[:-1] + '0')),
    ('check-suite-failure', 'check_suite', ('check_suite', SHA_A[:-1] + 'f'),
     ('commit', SHA_A[:-1] + 'f')),
    ('check-suite-running', 'check_suite', ('check_suite', SHA_A[:-1] + 'e'),
     'ignored'),
    ('push', 'push', ('push',), None),
    ('ping', 'ping', ('push',), None),
    ('check-run', 'check_run', ('check_suite', SHA_A), None),
    ('workflow-run', 'workflow_run', ('push',), None),
    ('review-comment', 'pull_request_review_comment',
     ('review', 'created', 9), None),
    ('no-event-header', None, ('pr_event', 'opened', 7), None),
    ('bitbucket-key-on-github', 'pullrequest:updated',
     ('pr_event', 'opened', 7), None),
    ('not-json', 'pull_request', ('raw', 'not json{'), None),
]
BB_EVENTS = [
    ('comment-created', 'pullrequest:comment_created', ('bb_pr', 1),
     ('pr', 1)),
    ('pr-created', 'pullrequest:created', ('bb_pr', 7), ('pr', 7)),
    ('pr-updated', 'pullrequest:updated', ('bb_pr', 1337), ('pr', 1337)),
    ('pr-approved', 'pullrequest:approved', ('bb_pr', 7), ('pr', 7)),
    ('pr-unapproved', 'pullrequest:unapproved', ('bb_pr', 7), 'ignored'),
    ('pr-fulfilled', 'pullrequest:fulfilled', ('bb_pr', 7), 'ignored'),
    ('pr-rejected', 'pullrequest:rejected', ('bb_pr', 7), 'ignored'),
    ('status-created-ok', 'repo:commit_status_created',
     ('bb_status', 'SUCCESSFUL', SHA_A), ('commit', SHA_A)),
    ('status-updated-failed', 'repo:commit_status_updated',
     ('bb_status', 'FAILED', SHA_B), ('commit', SHA_B)),
    ('status-updated-stopped', 'repo:commit_status_updated',
     ('bb_status', 'STOPPED', SHA_B), ('commit', SHA_B)),
    ('status-inprogress', 'repo:commit_status_created',
     ('bb_status', 'INPROGRESS', SHA_A), 'ignored'),
    ('repo-push', 'repo:push', ('bb_status', 'SUCCESSFUL', SHA_A), None),
    ('repo-fork', 'repo:fork', ('bb_pr', 7), None),
    ('issue-created', 'issue:created', ('bb_pr', 7), None),
    ('no-colon', 'pullrequest', ('bb_pr', 7), None),
    ('two-colons', 'pullrequest:updated:x', ('bb_pr', 7), None),
    ('no-event-header', None, ('bb_pr', 7), None),
    ('github-event-on-bitbucket', 'pull_request', ('bb_pr', 7), None),
    ('not-json', 'pullrequest:updated', ('raw', 'not json{'), None),
]
EVENTS = {'/github': GH_EVENTS, '/bitbucket': BB_EVENTS}


def build_payload(spec, ident):
    owner, slug, keep = identity(ident)
    kind = spec[0]
    if kind == 'raw':
        return spec[1].encode()
    if kind in ('bb_pr', 'bb_status'):
        import bert_e.tests.test_server_data as data
        if kind == 'bb_pr':
            p = copy.deepcopy(data.COMMENT_CREATED)
            p['pullrequest']['id'] = spec[1]
        else:
            p = copy.deepcopy(data.COMMIT_STATUS_CREATED)
            p['commit_status']['state'] = spec[1]
            href = ('https://api.bitbucket.org/2.0/repositories/%s/%s/commit/'
                    '%s' % (owner, slug, spec[2]))
            p['commit_status']['links']['commit']['href'] = href
        p['repository']['owner']['username'] = owner
        p['repository']['name'] = slug
        p['repository']['full_name'] = '%s/%s' % (owner, slug)
    else:
        repo = gh_repo(owner, slug)
        p = {'repository': repo, 'sender': gh_user('sender')}
        if kind == 'pr_event':
            p.update(action=spec[1], number=spec[2],
                     pull_request=gh_pull_request(spec[2], owner, slug))
        elif kind == 'review':
            p.update(action=spec[1],
                     review={'id': 3, 'state': 'approved',
                             'user': gh_user('peer')},
                     pull_request=gh_pull_request(spec[2], owner, slug))
        elif kind == 'issue_comment':
            issue = {'number': spec[1], 'title': 'an issue'}
            if spec[2]:
                issue['pull_request'] = {
                    'url': 'https://api.github.com/repos/%s/%s/pulls/%d'
                           % (owner, slug, spec[1])}
            p.update(action='created', issue=issue,
                     comment={'id': 8, 'body': 'hello',
                              'user': gh_user('peer')})
        elif kind == 'status':
            p.update(sha=spec[2], state=spec[1], context='pre-merge',
                     description='build', target_url='https://ci/1')
        elif kind == 'check_suite':
            p.update(action='completed', check_suite={
                'id': 11, 'head_sha': spec[1], 'head_branch': 'feature/x',
                'status': 'completed', 'conclusion': 'success',
                'html_url': 'https://github.com/x/y/suites/11',
                'created_at': '2020-01-02T03:04:05Z'})
        elif kind == 'push':
            p.update(ref='refs/heads/feature/x', after=SHA_A)
    if not keep:
        del p['repository']
    return json.dumps(p).encode()


def basic(user, pwd):
    return 'Basic ' + base64.b64encode(
        ('%s:%s' % (user, pwd)).encode()).decode()


CREDS = [
    # (label, Authorization header or None, right?)
    ('right', basic(HOOK_LOGIN, HOOK_PWD), True),
    ('none', None, False),
    ('wrong-user', basic('someone', HOOK_PWD), False),
    ('wrong-pwd', basic(HOOK_LOGIN, 'guess'), False),
    ('both-wrong', basic('someone', 'guess'), False),
    ('swapped', basic(HOOK_PWD, HOOK_LOGIN), False),
    ('empty-pwd', basic(HOOK_LOGIN, ''), False),
    ('empty-user', basic('', HOOK_PWD), False),
    ('pwd-prefix', basic(HOOK_LOGIN, HOOK_PWD[:-1]), False),
    ('pwd-suffix', basic(HOOK_LOGIN, HOOK_PWD + 'x'), False),
    ('user-upper', basic(HOOK_LOGIN.upper(), HOOK_PWD), False),
    ('bearer', 'Bearer ' + HOOK_PWD, False),
    ('bad-base64', 'Basic !!!', False),
    ('no-colon', 'Basic ' + base64.b64encode(
        HOOK_LOGIN.encode()).decode(), False),
    ('robot', basic('robot', 'robot-pw'), False),
]
CREDS_BY_LABEL = {c[0]: c for c in CREDS}


# --------------------------------------------------------------------------
# Cells
# --------------------------------------------------------------------------
def api_targets():
    """(rule, param string or None, concrete path, validity of the path)."""
    out = []
    for b in BRANCHES:
        out.append((R_BRANCH, b, '/api/gwf/branches/' + quote(b, safe='/'),
                    classify_branch(b)))
    for p in PR_IDS:
        out.append((R_PR, p, '/api/pull-requests/' + quote(p, safe='/'),
                    classify_pr(p)))
    out.append((R_QUEUES, None, '/api/gwf/queues', 'valid'))
    out.append((R_QUEUES, 'extra', '/api/gwf/queues/extra', 'invalid'))
    out.append((R_QUEUES, 'slash', '/api/gwf/queues/', 'invalid'))
    out.append((R_QUEUES, 'prefix', '/api/gwf/queue', 'invalid'))
    out.append((R_QUEUES, 'upper', '/api/gwf/QUEUES', 'invalid'))
    out.append((R_QUEUES, 'no-gwf', '/api/queues', 'invalid'))
    out.append((R_BRANCH, 'no-gwf', '/api/branches/development/4.3',
                'invalid'))
    out.append((R_JOBS, None, '/api/jobs', 'valid'))
    for j in JOB_IDS:
        out.append((R_JOB, j, '/api/jobs/' + j, 'valid'))
    out.append(('/manage', None, '/manage', 'valid'))
    out.append(('/manage/<string:error>', 'x', '/manage/CreateBranchForm',
                'valid'))
    return out


FORM_FIELDS = {
    '/form/EvalPullRequestForm': [
        {'pr_id': v} for v in ['1', '1337', '0', '-1', 'abc', '', '1.5',
                               ' 1 ', '99999999999999999999999', '１',
                               '1\n', '1/extra']] + [{}],
    '/form/CreateBranchForm': [
        {'branch': b, 'branch_from': ''} for b in [
            'development/4.3', 'stabilization/4.3.1', 'hotfix/4.3.1',
            'development/4', 'development/4.3/extra', 'stabilization/4.3',
            'hotfix/4.3.1.2', 'w/4.3/feature/x', 'feature/TEST-1',
            'development/4.3\n', 'development/4.3 ', ' development/4.3',
            '../development/4.3', '']] + [
        {'branch': 'development/4.3', 'branch_from': v} for v in [
            'abc1234', SHA_A, 'development/4.2', 'invalid',
            'stabilization/4.3.0', 'abc1234\n', ' abc1234',
            '--upload-pack=x', 'w/4.3/feature/x', 'development/4']] + [
        {'branch': 'development/4.3'}, {'branch_from': 'abc1234'}, {}],
    '/form/DeleteBranchForm': [
        {'branch': b} for b in [
            'development/4.3', 'stabilization/4.3.1', 'hotfix/4.3.1',
            'development/4', 'development/4.3/extra', 'stabilization/4.3',
            'hotfix/4.3.1.2', 'w/4.3/feature/x', 'q/4.3',
            'development/4.3\n', 'development/4.3 ', '']] + [{}],
    '/form/ForceMergeQueuesForm': [{}],
    '/form/RebuildQueuesForm': [{}],
    '/form/DeleteQueuesForm': [{}],
}
CSRF_KINDS = ('own', 'missing', 'foreign', 'garbage')
TOKENS = ('absent', 'empty', 'bad', 'user', 'admin')


def all_cells():
    """Deterministic enumeration of the whole matrix."""
    for host in HOSTS:
        # --- API: every target x method x session, canonical JSON body
        for rule, param, path, validity in api_targets():
            for method in METHODS:
                for session in SESSIONS:
                    yield {'kind': 'api', 'host': host, 'rule': rule,
                           'param': param, 'path': path, 'method': method,
                           'session': session, 'body': 'obj-empty'}
        # --- API: body variants on well-formed paths
        for rule, param, path in (
                (R_BRANCH, 'development/4.3', '/api/gwf/branches/'
                                              'development/4.3'),
                (R_BRANCH, 'stabilization/4.3.1', '/api/gwf/branches/'
                                                  'stabilization/4.3.1'),
                (R_PR, '7', '/api/pull-requests/7'),
                (R_QUEUES, None, '/api/gwf/queues')):
            for label, _, _ in BODIES:
                if label == 'obj-empty':
                    continue
                if rule != R_BRANCH and label.startswith('bf-') and \
                        label not in ('bf-sha7', 'bf-int'):
                    continue
                for method in METHODS:
                    for session in SESSIONS:
                        yield {'kind': 'api', 'host': host, 'rule': rule,
                               'param': param, 'path': path,
                               'method': method, 'session': session,
                               'body': label}
        # --- forms
        for path in sorted(FORM_FIELDS):
            for i, fields in enumerate(FORM_FIELDS[path]):
                for session in SESSIONS:
                    for csrf in CSRF_KINDS:
                        if session == 'none' and csrf == 'own':
                            continue     # no page, no token of one's own
                        methods = METHODS if (i == 0 and csrf in
                                              ('own', 'foreign')) \
                            else ('POST',)
                        for method in methods:
                            yield {'kind': 'form', 'host': host,
                                   'rule': path, 'path': path,
                                   'method': method, 'session': session,
                                   'csrf': csrf, 'fields': fields}
        # --- login flow
        for method in METHODS:
            for session in SESSIONS:
                for token in TOKENS:
                    yield {'kind': 'auth', 'host': host, 'rule': R_AUTH,
                           'path': R_AUTH, 'method': method,
                           'session': session, 'token': token}
        # --- webhooks
        for route in ('/bitbucket', '/github'):
            for label, header, spec, expect in EVENTS[route]:
                for cred, _, _ in CREDS:
                    for ident in IDENTITIES:
                        yield {'kind': 'hook', 'host': host, 'rule': route,
                               'path': route, 'method': 'POST',
                               'creds': cred, 'identity': ident,
                               'event': label}
            first = EVENTS[route][0][0]
            for method in METHODS:
                if method == 'POST':
                    continue
                for cred in ('right', 'none'):
                    for ident in ('match', 'other-owner'):
                        yield {'kind': 'hook', 'host': host, 'rule': route,
                               'path': route, 'method': method,
                               'creds': cred, 'identity': ident,
                               'event': first}
            # webhook credentials are no API credentials and vice versa
            for session in ('user', 'admin'):
                yield {'kind': 'hook', 'host': host, 'rule': route,
                       'path': route, 'method': 'POST', 'creds': 'none',
                       'identity': 'match', 'event': first,
                       'session': session}


# --------------------------------------------------------------------------
# Oracle
# --------------------------------------------------------------------------
def session_ok(row, session):
    """-> 'ok' | 'open' | reason of refusal"""
    if session == 'none':
        return 'session=none'
    if row.get('need') == 'admin' and session != 'admin':
        return 'not-admin'
    if row.get('need_open') and session == 'user':
        return 'open'
    return 'ok'


def worst(*vals):
    for v in ('invalid', 'open', 'valid'):
        if v in vals:
            return v
    return 'valid'


def expectation(cell):
    """-> dict(verdict=ACCEPT|REFUSE|EITHER|NOENQ, factor=..., job=spec|None,
    enqueuing=bool).  NOENQ: status is free, nothing may be enqueued."""
    kind = cell['kind']
    row = TABLE.get((cell['rule'], cell['method']))
    if kind == 'api':
        return _expect_api(cell, row)
    if kind == 'form':
        return _expect_form(cell, row)
    if kind == 'auth':
        return _expect_auth(cell, row)
    return _expect_hook(cell, row)


def _job_spec(row, user, **params):
    return {'cls': row['job'], 'user': user, 'params': params}


def _user_of(session):
    return {'user': USER, 'admin': ADMIN}.get(session)


def _expect_api(cell, row):
    path_valid = dict(('%s|%s' % (r, p), v)
                      for r, p, _, v in api_targets())
    pv = path_valid['%s|%s' % (cell['rule'], cell['param'])]
    if row is None:
        return {'verdict': 'REFUSE', 'factor': 'method', 'enqueuing': False}
    if row['kind'] == 'read':
        if cell['session'] == 'none':
            return {'verdict': 'REFUSE', 'factor': 'session=none',
                    'enqueuing': False}
        return {'verdict': 'NOENQ', 'factor': 'read', 'enqueuing': False}
    # enqueue row
    sess = session_ok(row, cell['session'])
    if sess not in ('ok', 'open'):
        return {'verdict': 'REFUSE', 'factor': sess, 'enqueuing': True}
    _, ct, raw = BODY_BY_LABEL[cell['body']]
    bv, bf = body_class(row, ct, raw)
    if pv == 'invalid':
        return {'verdict': 'REFUSE', 'factor': 'path-parameter',
                'enqueuing': True}
    if bv == 'invalid':
        return {'verdict': 'REFUSE', 'factor': 'branch_from',
                'enqueuing': True}
    params = {}
    if 'branch' in row['params']:
        params['branch'] = ('is', cell['param'])
    if 'pr_id' in row['params']:
        params['pr_id'] = ('is', int(cell['param'].strip()))
    if 'branch_from' in row['params'] and bf is not None:
        params['branch_from'] = bf
    spec = _job_spec(row, _user_of(cell['session']), **params)
    v = worst(pv, bv, 'open' if sess == 'open' else 'valid')
    if v == 'open':
        why = ('session' if sess == 'open' else
               'path' if pv == 'open' else 'body')
        return {'verdict': 'EITHER', 'factor': why, 'job': spec,
                'enqueuing': True}
    return {'verdict': 'ACCEPT', 'factor': 'authorised', 'job': spec,
            'enqueuing': True}


def _expect_form(cell, row):
    if row is None:
        return {'verdict': 'REFUSE', 'factor': 'method', 'enqueuing': False}
    via = TABLE[row['via']]
    sess = session_ok(via, cell['session'])
    if sess not in ('ok', 'open'):
        return {'verdict': 'REFUSE', 'factor': sess, 'enqueuing': True}
    f = cell['fields']
    vals = []
    params = {}
    if 'branch' in via['params']:
        b = f.get('branch')
        vals.append('invalid' if b is None else classify_branch(b))
        params['branch'] = ('is', b)
    if 'pr_id' in via['params']:
        p = f.get('pr_id')
        v = 'invalid' if p is None else classify_pr(p)
        vals.append(v)
        if v != 'invalid':
            params['pr_id'] = ('is', int(p.strip()))
    if 'branch_from' in via['params']:
        bf = f.get('branch_from')
        if bf is None:
            # a browser always submits the (possibly empty) input
            vals.append('open')
            params['branch_from'] = ('empty',)
        elif bf == '':
            # the optional input left empty: the standard flow of the page
            params['branch_from'] = ('empty',)
        else:
            vals.append(classify_branch_from(bf))
            params['branch_from'] = ('is', bf)
    v = worst(*vals) if vals else 'valid'
    if v == 'invalid':
        return {'verdict': 'REFUSE', 'factor': 'form-field',
                'enqueuing': True}
    spec = _job_spec(via, _user_of(cell['session']), **params)
    if cell['csrf'] != 'own':
        return {'verdict': 'EITHER', 'factor': 'csrf', 'job': spec,
                'enqueuing': True}
    if v == 'open' or sess == 'open':
        return {'verdict': 'EITHER',
                'factor': 'session' if sess == 'open' else 'field',
                'job': spec, 'enqueuing': True}
    return {'verdict': 'ACCEPT', 'factor': 'authorised', 'job': spec,
            'enqueuing': True}


def _expect_auth(cell, row):
    if row is None:
        return {'verdict': 'REFUSE', 'factor': 'method', 'enqueuing': False}
    if cell['token'] in ('absent', 'empty', 'bad'):
        return {'verdict': 'REFUSE', 'factor': 'token', 'enqueuing': False}
    return {'verdict': 'NOENQ', 'factor': 'login', 'enqueuing': False}


def _expect_followup(cell):
    """Admin-only request (DELETE /api/gwf/queues) after the login cell."""
    tok = cell['token'] if cell['method'] == 'GET' else 'absent'
    could_be_admin = cell['session'] == 'admin' or tok == 'admin'
    row = TABLE[(R_QUEUES, 'DELETE')]
    if not could_be_admin:
        return {'verdict': 'REFUSE', 'factor': 'login-not-admin',
                'enqueuing': True}
    if cell['session'] == 'none' and tok == 'admin':
        return {'verdict': 'ACCEPT', 'factor': 'login-admin',
                'job': _job_spec(row, ADMIN), 'enqueuing': True}
    return {'verdict': 'EITHER', 'factor': 'relogin',
            'job': _job_spec(row, None), 'enqueuing': True}


def _expect_hook(cell, row):
    if row is None:
        return {'verdict': 'REFUSE', 'factor': 'method', 'enqueuing': False}
    ev = dict((e[0], e) for e in EVENTS[cell['rule']])[cell['event']]
    expect = ev[3]
    enq = expect not in (None,)
    if not CREDS_BY_LABEL[cell['creds']][2]:
        return {'verdict': 'REFUSE', 'factor': 'credentials',
                'enqueuing': enq}
    if cell['identity'] != 'match':
        return {'verdict': 'REFUSE', 'factor': 'repository-identity',
                'enqueuing': enq}
    if row['host'] == 'github' and cell['host'] != 'github':
        # a GitHub event for an instance that watches a Bitbucket repository
        # is not "for the configured repository"
        return {'verdict': 'REFUSE', 'factor': 'repository-host',
                'enqueuing': enq}
    if expect is None:
        return {'verdict': 'NOENQ', 'factor': 'unhandled-event',
                'enqueuing': False}
    spec = None
    if expect != 'ignored':
        spec = {'cls': 'PullRequestJob' if expect[0] == 'pr' else 'CommitJob',
                'hook': expect}
    if expect == 'ignored':
        return {'verdict': 'EITHER', 'factor': 'ignored-event', 'job': None,
                'enqueuing': True}
    if row['host'] != cell['host']:
        # the Bitbucket route of a GitHub instance: the statement only asks
        # for credentials and repository identity, both are right here
        return {'verdict': 'EITHER', 'factor': 'other-host-route',
                'job': spec, 'enqueuing': True}
    return {'verdict': 'ACCEPT', 'factor': 'authorised', 'job': spec,
            'enqueuing': True}


# --------------------------------------------------------------------------
# Execution
# --------------------------------------------------------------------------
def describe_jobs(berte):
    out = []
    for job in list(berte.task_queue.queue):
        d = {'cls': type(job).__name__, 'user': getattr(job, 'user', None)}
        try:
            d['settings'] = dict(job.settings.maps[0])
        except Exception as e:   # a job whose settings are not a mapping
            d['settings'] = 'unreadable: %r' % (e,)
        pr = getattr(job, 'pull_request', None)
        if pr is not None:
            try:
                d['pr_id'] = pr.id
            except Exception as e:
                d['pr_id'] = 'unreadable: %r' % (e,)
        if hasattr(job, 'commit'):
            d['commit'] = job.commit
        out.append(d)
    return out


def _csrf_token(client):
    page = client.get('/manage')
    if page.status_code != 200:
        return None
    m = re.search(r'name="csrf_token"[^>]*value="([^"]*)"',
                  page.get_data(as_text=True))
    return m.group(1) if m else None


def execute(env, cell):
    """-> observation dict (status, location, jobs, followup)."""
    host = cell['host']
    app, berte = env.reset(host)
    kind = cell['kind']
    obs = {}
    headers = {}
    data = None
    path = cell['path']
    c = env.client(host, cell.get('session', 'none'))
    if kind == 'api':
        _, ct, raw = BODY_BY_LABEL[cell['body']]
        if ct:
            headers['Content-Type'] = ct
        headers['Accept'] = JSON_CT
        data = raw.encode() if raw is not None else None
        if cell['rule'] == R_JOB and cell['param'] == '@existing':
            path = '/api/jobs/' + berte._vf_done_id
    elif kind == 'form':
        fields = dict(cell['fields'])
        tok = None
        if cell['csrf'] == 'own':
            tok = _csrf_token(c)
            if tok is None:
                raise HarnessError('no CSRF token on /manage for session %s'
                                   % cell['session'])
        elif cell['csrf'] == 'foreign':
            tok = _csrf_token(env.client(host, 'admin'))
            if tok is None:
                raise HarnessError('no CSRF token on /manage for admin')
        elif cell['csrf'] == 'garbage':
            tok = 'ImZvbyI.garbage.token'
        if tok is not None:
            fields['csrf_token'] = tok
        data = fields
        if berte.task_queue.qsize():
            raise HarnessError('GET /manage enqueued a job')
    elif kind == 'auth':
        headers['Content-Type'] = JSON_CT
        tok = {'absent': None, 'empty': '', 'bad': 'tok-unknown',
               'user': 'tok-user', 'admin': 'tok-admin'}[cell['token']]
        if tok is not None:
            path = path + '?access_token=' + tok
    else:
        ev = dict((e[0], e) for e in EVENTS[cell['rule']])[cell['event']]
        data = build_payload(ev[2], cell['identity'])
        auth = CREDS_BY_LABEL[cell['creds']][1]
        if auth is not None:
            headers['Authorization'] = auth
        if ev[1] is not None:
            headers['X-Event-Key' if cell['rule'] == '/bitbucket'
                    else 'X-Github-Event'] = ev[1]
        headers['Content-Type'] = JSON_CT
    resp = c.open(path, method=cell['method'], headers=headers, data=data)
    obs['status'] = resp.status_code
    obs['location'] = resp.headers.get('Location')
    obs['jobs'] = describe_jobs(berte)
    if kind == 'auth':
        with berte.task_queue.mutex:
            berte.task_queue.queue.clear()
        r2 = c.open('/api/gwf/queues', method='DELETE', data=b'{}',
                    headers={'Content-Type': JSON_CT})
        obs['followup'] = {'status': r2.status_code,
                           'jobs': describe_jobs(berte)}
    return obs


def _param_ok(want, settings, key):
    if want[0] == 'is':
        # exact value and exact type (True == 1 must not pass for ints)
        return key in settings and settings[key] == want[1] and \
            type(settings[key]) is type(want[1])
    if want[0] == 'absent':
        return key not in settings
    if want[0] == 'empty':
        return settings.get(key, '') in ('', None)
    return True


NOT_A_MAPPING = 'the settings of the enqueued job are not a mapping'


def job_matches(spec, jobs):
    """-> None or text of the mismatch."""
    if len(jobs) != 1:
        return 'expected exactly one job, queue holds %d' % len(jobs)
    if spec is None:
        return None
    job = jobs[0]
    if job['cls'] != spec['cls']:
        return 'job class %s, expected %s' % (job['cls'], spec['cls'])
    if 'hook' in spec:
        what, val = spec['hook']
        if what == 'pr' and not (job.get('pr_id') == val and
                                 type(job.get('pr_id')) is int):
            return 'PullRequestJob for pr %r, event was about pr %r' % (
                job.get('pr_id'), val)
        if what == 'commit' and job.get('commit') != val:
            return 'CommitJob for %r, event was about %r' % (
                job.get('commit'), val)
        return None
    if spec.get('user') is not None and job.get('user') != spec['user']:
        return 'job attributed to %r, session user is %r' % (
            job.get('user'), spec['user'])
    st = job.get('settings')
    if not isinstance(st, dict):
        return NOT_A_MAPPING + ': %s' % (st,)
    for key, want in sorted(spec['params'].items()):
        if not _param_ok(want, st, key):
            return 'job.settings[%r] = %r, request said %r' % (
                key, st.get(key, '<absent>'), want)
    return None


def judge(cell, exp, status, jobs, location=None):
    """-> (clause, text) or None."""
    verdict = exp['verdict']
    is_form = cell['kind'] == 'form'
    if verdict == 'REFUSE':
        if jobs:
            return ('enqueued-on-refusal',
                    'must be refused (%s) but enqueued %s (status %d)' % (
                        exp['factor'], jobs, status))
        redirect_ok = is_form and status in (301, 302, 303, 307, 308)
        if status < 400 and not redirect_ok:
            return ('no-error-status',
                    'must be refused (%s) but answered %d' % (
                        exp['factor'], status))
        return None
    if verdict == 'NOENQ':
        if jobs:
            return ('enqueued-by-non-enqueuing-cell',
                    'nothing may be enqueued here (%s) but got %s' % (
                        exp['factor'], jobs))
        return None
    if verdict == 'EITHER':
        if not jobs:
            return None
        bad = job_matches(exp.get('job'), jobs)
        if bad:
            return ('wrong-job', bad)
        if status >= 400:
            return ('enqueued-with-error-status',
                    'answered %d but enqueued %s' % (status, jobs))
        return None
    # ACCEPT
    if not jobs:
        return ('missing-job',
                'authorised well-formed request answered %d and enqueued '
                'nothing' % status)
    bad = job_matches(exp.get('job'), jobs)
    if bad:
        return ('wrong-job', bad)
    if cell['kind'] == 'hook':
        ok = status in (200, 202)
    elif is_form:
        ok = status == 302
    else:
        ok = status == 202
    if not ok:
        return ('wrong-status', 'job enqueued but status %d' % status)
    return None


def check_cell(env, cell, acc, count=True):
    exp = expectation(cell)
    obs = execute(env, cell)
    problems = []
    p = judge(cell, exp, obs['status'], obs['jobs'], obs.get('location'))
    if p:
        problems.append((exp, p, obs['status'], obs['jobs']))
    exp2 = None
    if cell['kind'] == 'auth':
        exp2 = _expect_followup(cell)
        fu = obs['followup']
        follow_cell = dict(cell, kind='api')
        p2 = judge(follow_cell, exp2, fu['status'], fu['jobs'])
        if p2:
            problems.append((exp2, ('login-' + p2[0], 'after %s %s: %s' % (
                cell['method'], cell['path'], p2[1])), fu['status'],
                fu['jobs']))
    if count:
        nontrivial = exp['enqueuing'] and exp['verdict'] in ('ACCEPT',
                                                             'REFUSE')
        if exp2 is not None and exp2['verdict'] in ('ACCEPT', 'REFUSE'):
            nontrivial = True
        classes = ['%s_%s' % (cell['kind'], exp['verdict'].lower()),
                   'host_' + cell['host']]
        if exp['verdict'] == 'EITHER':
            classes.append('either_' + exp['factor'])
        if exp['verdict'] == 'REFUSE':
            classes.append('refuse_by_' + exp['factor'])
        if obs['jobs']:
            classes.append('observed_enqueue')
        classes.append('status_%d' % obs['status'])
        sample = dict(cell, verdict=exp['verdict'], factor=exp['factor'],
                      status=obs['status'], jobs=obs['jobs'])
        acc.case(json.dumps(cell, sort_keys=True), nontrivial,
                 sample=sample, classes=classes)
    for e, (clause, text), status, jobs in problems:
        sig = {'clause': clause, 'kind': cell['kind'], 'rule': cell['rule'],
               'method': cell['method'], 'factor': e['factor']}
        if text.startswith(NOT_A_MAPPING):
            # one root cause whatever the endpoint: the JSON body is handed
            # to the job without checking that it is an object
            sig = {'clause': 'job-settings-not-a-mapping', 'kind': 'api'}
        elif clause.startswith('login-'):
            sig = {'clause': clause, 'kind': 'auth', 'factor': e['factor']}
        acc.violation(
            'C14 %s %s [%s] host=%s %s\n  verdict=%s (%s), status=%d, '
            'queue=%s\n  %s' % (
                cell['method'], cell['path'], cell['kind'], cell['host'],
                json.dumps({k: v for k, v in cell.items()
                            if k not in ('kind', 'host', 'path', 'method',
                                         'rule')}, sort_keys=True),
                e['verdict'], e['factor'], status, jobs, text),
            cell, sig)


def self_test(env, acc):
    """Accepting cells that the pinned suite (test_server.py) asserts must
    come out the same way through this harness (session installation, form
    loop-back, webhook payloads work).  Only accepting paths are probed: a
    refusal that does not happen is for the matrix to report, not for the
    self-test."""
    probes = [
        ({'kind': 'api', 'host': 'bitbucket', 'rule': R_BRANCH,
          'param': 'development/4.3', 'method': 'POST', 'session': 'admin',
          'path': '/api/gwf/branches/development/4.3', 'body': 'bf-sha11'},
         202, 1),
        ({'kind': 'form', 'host': 'bitbucket', 'rule':
          '/form/EvalPullRequestForm', 'path': '/form/EvalPullRequestForm',
          'method': 'POST', 'session': 'user', 'csrf': 'own',
          'fields': {'pr_id': '1'}}, 302, 1),
        ({'kind': 'hook', 'host': 'bitbucket', 'rule': '/bitbucket',
          'path': '/bitbucket', 'method': 'POST', 'creds': 'right',
          'identity': 'match', 'event': 'comment-created'}, 200, 1),
    ]
    for cell, status, njobs in probes:
        obs = execute(env, cell)
        if obs['status'] != status or len(obs['jobs']) != njobs:
            raise HarnessError(
                'self-test: %r gave status %d / %d job(s), the pinned suite '
                'documents %d / %d; net=%r' % (
                    cell, obs['status'], len(obs['jobs']), status, njobs,
                    env.net_log))
    # oracle self-test on documented examples
    assert classify_branch('development/4.3') == 'valid'
    assert classify_branch('stabilization/4.3.0') == 'valid'
    assert classify_branch('foo/7.4') == 'invalid'
    assert classify_branch('stabilization/7.4') == 'invalid'
    assert classify_branch('development/7.4_') == 'invalid'
    assert classify_branch_from('123456abc') == 'valid'
    assert classify_branch_from('invalid') == 'invalid'
    assert classify_pr('1337') == 'valid' and classify_pr('0') == 'invalid'


def shard_fn(ctx, shard, acc):
    import logging
    logging.disable(logging.CRITICAL)   # tracebacks of the 500 cells
    lo, step = shard
    env = Env()
    try:
        if lo == 0:
            self_test(env, acc)
        for i, cell in enumerate(all_cells()):
            if i % step != lo:
                continue
            check_cell(env, cell, acc)
    finally:
        env.close()


def run(ctx):
    n = ctx['nproc']
    acc = run_shards(__name__, 'shard_fn', ctx, [(i, n) for i in range(n)])
    total = sum(1 for _ in all_cells())
    if acc.evaluations != total:
        raise HarnessError('matrix has %d cells, %d were evaluated'
                           % (total, acc.evaluations))
    acc.extra['exhaustive'] = True
    acc.extra['matrix_cells'] = total
    acc.extra['either_cells'] = sum(
        v for k, v in acc.classes.items() if k.endswith('_either'))
    acc.extra['table_rows'] = len(TABLE)
    return acc


def replay(ctx, case, acc):
    import logging
    logging.disable(logging.CRITICAL)
    env = Env()
    try:
        check_cell(env, case, acc, count=False)
    finally:
        env.close()
