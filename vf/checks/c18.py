"""C18 branch names are classified unambiguously and robot names round-trip.

Part 1 (classification): every name of a bounded grammar (and fuzzed raw
text) goes through the real ``branch_factory`` and through an independent
hand-written parser of the documented naming grammar (no regular expression
anywhere in the oracle).  Part 2 (round trip): names built by the real
``create_integration_branches`` / ``get_integration_branches`` /
``get_queue_branch`` / ``get_queue_integration_branch`` over a real
``BranchCascade`` are parsed back by ``branch_factory`` and by the real
``handle_commit``.
"""
import itertools
import json
import os
import shutil
import subprocess
import sys
import tempfile
import zlib
from types import SimpleNamespace

from vf.cli import Acc, HarnessError, run_shards

LEVEL = 'exploration'
RULE = ('classification: union of three finite products over '
        '{feature prefixes, development, stabilization, hotfix, release, '
        'user, w, q, q/w, unknown and upper-case words} x {well-formed '
        'versions with 1-4 components, malformed versions} x labels '
        '(all concatenations of <=3 atoms among ticket keys, words, digits, '
        "'.', '-', '_', '/', version-like and prefix-like fragments), "
        'filtered by an own git check-ref-format predicate (validated '
        'against git on a sample); exhaustive in both tiers; plus seeded '
        'Hypothesis raw text / token soup / one-edit mutations of valid '
        'names over the alphabet of the grammar (and atheris in the '
        'thorough tier). non-trivial = name accepted by the oracle or by '
        'the code (distinct by name). round trip: every (cascade, '
        'destination incl. hotfix x.y.z.n, pr id, valid feature-grammar '
        'source) through the real name constructors; non-trivial = source '
        "label contains a digit, '.' or '/' (distinct by tuple). listing: "
        'for every non-destination name of the grammar (sources, user/, '
        'release/, robot names; with destination-like fragments such as '
        'feature/development/11.0) the real BranchCascade.build() on an '
        'in-memory repository holding it reads the same cascade as without '
        'it (metamorphic; non-trivial = the name contains a destination '
        'prefix).')
ASSUMPTIONS = [
    'branch names come from git / the git host, hence are valid ref names; '
    'names that git check-ref-format refuses (trailing newline, spaces, '
    "'..', ...) are EITHER cells: counted, never alarmed",
    'the grammar is silent on leading zeros in version numbers / pr ids and '
    'on ticket keys whose project does not start with a letter or that are '
    'directly followed by a letter: EITHER cells',
    'non-ASCII names (e.g. Unicode digits) are outside the generated '
    'alphabet',
    'git and the git host are replaced by light fakes in the round trip '
    '(repo.checkout always succeeds, get_pull_requests returns nothing); '
    'the cascade, the branch objects and the name constructors are real',
]

# --------------------------------------------------------------------------
# documented grammar (hard-coded here, NOT read from the code under test)
# --------------------------------------------------------------------------
FPREFIXES = ('improvement', 'bugfix', 'feature', 'project', 'documentation',
             'design', 'dependabot', 'epic', 'bug')
_DIGITS = '0123456789'
_LETTERS = 'abcdefghijklmnopqrstuvwxyzABCDEFGHIJKLMNOPQRSTUVWXYZ'
_PROJ = _LETTERS + _DIGITS + '_'

DEST_KINDS = ('development', 'stabilization', 'hotfix')


def valid_ref(name):
    """Own implementation of `git check-ref-format --branch`."""
    if not name or name in ('@', 'HEAD'):
        return False
    if name[0] in '-/' or name[-1] in '/.':
        return False
    if '..' in name or '//' in name or '@{' in name:
        return False
    for ch in name:
        o = ord(ch)
        if o < 0x20 or o == 0x7f or ch in ' ~^:?*[\\':
            return False
    for comp in name.split('/'):
        if comp.startswith('.') or comp.endswith('.lock'):
            return False
    return True


def _number(s, lax):
    """Decimal number -> int, or None.  lax: leading zeros allowed."""
    if not s:
        return None
    for c in s:
        if c not in _DIGITS:
            return None
    if not lax and len(s) > 1 and s[0] == '0':
        return None
    return int(s)


def _version(s, counts, lax):
    """Exactly n dot separated numbers with n in counts -> list of ints."""
    parts = s.split('.')
    if len(parts) not in counts:
        return None
    out = []
    for p in parts:
        n = _number(p, lax)
        if n is None:
            return None
        out.append(n)
    return out


def _vt(nums):
    return list(nums) + [None] * (4 - len(nums))


def _ticket(label):
    """Leading ticket key of a label: (key, project, doubtful) or None.

    PROJECT '-' NUMBER at the very start of the label; doubtful when the
    docs do not say whether this is a ticket: project not starting with a
    letter, or key glued to a following letter/underscore."""
    i = 0
    while i < len(label) and label[i] in _PROJ:
        i += 1
    if i == 0 or i >= len(label) or label[i] != '-':
        return None
    j = i + 1
    while j < len(label) and label[j] in _DIGITS:
        j += 1
    if j == i + 1:
        return None
    doubtful = label[0] not in _LETTERS or \
        (j < len(label) and label[j] in _LETTERS + '_')
    return label[:j].upper(), label[:i].upper(), doubtful


def _feature(text):
    """<known prefix>/<non-empty label> -> attrs or None."""
    prefix, sep, label = text.partition('/')
    if not sep or prefix not in FPREFIXES or not label:
        return None
    out = {'prefix': prefix, 'label': label, 'feature_branch': text,
           'key': None, 'project': None, 'key_doubt': False}
    t = _ticket(label)
    if t:
        out['key'], out['project'], out['key_doubt'] = t
    return out


def _integration(rest, lax):
    """<version 1-4>/<feature branch name> -> attrs or None."""
    vstr, sep, fb = rest.partition('/')
    if not sep:
        return None
    nums = _version(vstr, (1, 2, 3, 4), lax)
    if nums is None:
        return None
    feat = _feature(fb)
    if feat is None:
        return None
    feat.update(version=vstr, vt=_vt(nums))
    return feat


REJ = {'kind': 'rejected'}


def classify(name, lax=True):
    """Exactly one kind (or 'rejected') and the attributes of that kind."""
    head, sep, rest = name.partition('/')
    if not sep:
        return dict(REJ)
    if head == 'development':
        nums = _version(rest, (1, 2), lax)
        if nums is None:
            return dict(REJ)
        return {'kind': 'development', 'version': rest, 'vt': _vt(nums)}
    if head == 'stabilization':
        nums = _version(rest, (3,), lax)
        if nums is None:
            return dict(REJ)
        return {'kind': 'stabilization', 'version': rest, 'vt': _vt(nums)}
    if head == 'release':
        nums = _version(rest, (2,), lax)
        if nums is None:
            return dict(REJ)
        return {'kind': 'release', 'version': rest, 'vt': _vt(nums)}
    if head == 'hotfix':
        nums = _version(rest, (3,), lax)
        if nums is not None:
            return {'kind': 'hotfix', 'version': rest, 'vt': _vt(nums)}
        if rest:
            return {'kind': 'legacy_hotfix', 'label': rest}
        return dict(REJ)
    if head == 'user':
        if rest:
            return {'kind': 'user', 'label': rest}
        return dict(REJ)
    if head in FPREFIXES:
        feat = _feature(name)
        if feat is None:
            return dict(REJ)
        feat['kind'] = 'feature'
        return feat
    if head == 'w':
        integ = _integration(rest, lax)
        if integ is None:
            return dict(REJ)
        integ['kind'] = 'integration'
        return integ
    if head == 'q':
        h2, sep2, rest2 = rest.partition('/')
        if h2 == 'w' and sep2:
            pr, sep3, rest3 = rest2.partition('/')
            pr_id = _number(pr, lax)
            if not sep3 or pr_id is None:
                return dict(REJ)
            integ = _integration(rest3, lax)
            if integ is None:
                return dict(REJ)
            integ['kind'] = 'queue_integration'
            integ['pr_id'] = pr_id
            return integ
        nums = _version(rest, (1, 2, 3, 4), lax)
        if nums is None:
            return dict(REJ)
        return {'kind': 'queue', 'version': rest, 'vt': _vt(nums)}
    return dict(REJ)


def _flags(kind):
    """(can_be_destination, cascade_consumer, cascade_producer); producer
    None = EITHER (stabilization inherits it from development, docs silent).
    """
    dest = kind in DEST_KINDS
    if kind in ('feature', 'development'):
        prod = True
    elif kind == 'stabilization':
        prod = None
    else:
        prod = False
    return dest, dest, prod


def allowed(name):
    """List of acceptable outcomes (>1 = EITHER cell) and EITHER tags."""
    outs, tags = [], []
    strict = classify(name, lax=False)
    lax = classify(name, lax=True)
    cands = [lax]
    if strict != lax:
        cands.append(strict)
        tags.append('either_leading_zero')
    for c in cands:
        doubt = c.pop('key_doubt', False)
        outs.append(c)
        if doubt:
            alt = dict(c)
            alt['key'] = alt['project'] = None
            outs.append(alt)
            if 'either_ticket_key_shape' not in tags:
                tags.append('either_ticket_key_shape')
    return outs, tags


# --------------------------------------------------------------------------
# observation of the code under test
# --------------------------------------------------------------------------
_CLS = (('StabilizationBranch', 'stabilization'),
        ('DevelopmentBranch', 'development'),
        ('ReleaseBranch', 'release'),
        ('QueueBranch', 'queue'),
        ('QueueIntegrationBranch', 'queue_integration'),
        ('FeatureBranch', 'feature'),
        ('HotfixBranch', 'hotfix'),
        ('LegacyHotfixBranch', 'legacy_hotfix'),
        ('IntegrationBranch', 'integration'),
        ('UserBranch', 'user'))
_MISSING = '<missing>'


def _mods():
    from bert_e import exceptions as E
    from bert_e.workflow.gitwaterflow import branches as B
    return B, E


def _attrs(b, kind):
    g = lambda a: getattr(b, a, _MISSING)  # noqa: E731
    out = {'kind': kind}
    if kind in ('development', 'release'):
        out['version'] = g('version')
        out['vt'] = [g('major'), g('minor'), None, None]
    elif kind in ('stabilization', 'hotfix'):
        out['version'] = g('version')
        out['vt'] = [g('major'), g('minor'), g('micro'), None]
    elif kind in ('queue', 'integration', 'queue_integration'):
        out['version'] = g('version')
        out['vt'] = [g('major'), g('minor'), g('micro'), g('hfrev')]
    if kind in ('feature', 'integration', 'queue_integration'):
        out.update(prefix=g('prefix'), label=g('label'),
                   feature_branch=g('feature_branch'),
                   key=g('jira_issue_key'), project=g('jira_project'))
    if kind == 'queue_integration':
        out['pr_id'] = g('pr_id')
    if kind in ('user', 'legacy_hotfix'):
        out['label'] = g('label')
    return out


def observe(name):
    """What the code says: outcome, flags, set of accepting classes."""
    B, E = _mods()
    kinds = {getattr(B, c): k for c, k in _CLS}
    try:
        b = B.branch_factory(None, name)
    except E.UnrecognizedBranchPattern:
        b = None
        out = dict(REJ)
    except Exception as e:  # an outcome, compared below
        b = None
        out = {'kind': 'exception:' + type(e).__name__}
    flags = None
    if b is not None:
        kind = kinds.get(type(b), 'other:' + type(b).__name__)
        out = _attrs(b, kind)
        flags = [b.can_be_destination, b.cascade_consumer, b.cascade_producer]
    accepting = []
    for cname, k in _CLS:
        try:
            getattr(B, cname)(None, name)
            accepting.append(k)
        except E.BranchNameInvalid:
            pass
        except Exception as e:
            accepting.append('exception:%s:%s' % (k, type(e).__name__))
    fn = []
    for f in (B.is_cascade_consumer, B.is_cascade_producer):
        try:
            fn.append(f(name))
        except E.UnrecognizedBranchPattern:
            fn.append('rejected')
        except Exception as e:
            fn.append('exception:' + type(e).__name__)
    return out, flags, accepting, fn


def _same(got, want):
    """Outcome equality; ticket key case is not prescribed on robot names
    (the code upper-cases it on feature branches only)."""
    if got == want:
        return True
    if got.get('kind') != want.get('kind') or \
            want.get('kind') not in ('integration', 'queue_integration'):
        return False
    g, w = dict(got), dict(want)
    for a in ('key', 'project'):
        if isinstance(g.get(a), str) and isinstance(w.get(a), str) and \
                g[a].upper() == w[a].upper():
            g[a] = w[a] = None
    return g == w


def check_name(name, acc, part, count=True):
    """Differential of one name.  Returns the oracle kind (lax reading)."""
    outs, tags = allowed(name)
    got, flags, accepting, fn = observe(name)
    okind = outs[0]['kind']
    case = {'kind': 'name', 'name': name}
    valid = valid_ref(name)
    ascii_ = all(ord(c) < 128 for c in name)
    if count:
        nontriv = okind != 'rejected' or got['kind'] != 'rejected'
        classes = [part + '_' + okind]
        if not valid:
            classes.append('either_invalid_ref_name')
        elif not ascii_:
            classes.append('either_non_ascii')
        classes.extend(tags)
        acc.case(name, nontriv, classes=classes,
                 sample={'name': name, 'oracle': okind, 'code': got['kind']})
    if not valid or not ascii_:
        if not any(_same(got, o) for o in outs):
            acc.cls('either_invalid_ref_name_differs' if not valid
                    else 'either_non_ascii_differs')
        return okind
    if not any(_same(got, o) for o in outs):
        if got['kind'] != okind and got['kind'] not in \
                [o['kind'] for o in outs]:
            acc.violation(
                'classification of %r: grammar says %s, branch_factory says '
                '%s' % (name, ' or '.join(sorted(set(
                    o['kind'] for o in outs))), got['kind']),
                case, {'part': 'kind', 'want': okind, 'got': got['kind']})
        else:
            want = [o for o in outs if o['kind'] == got['kind']][0]
            diff = sorted(k for k in set(want) | set(got)
                          if want.get(k) != got.get(k))
            acc.violation(
                'attributes of %r (%s): %s' % (name, got['kind'], ', '.join(
                    '%s: want %r got %r' % (k, want.get(k), got.get(k))
                    for k in diff)),
                case, {'part': 'attrs', 'kind': got['kind'], 'attrs': diff})
        return okind
    kind = got['kind']
    # exactly one kind: no other class of the factory may accept the name
    # (documented overlap: hotfix/x.y.z is also a legacy hotfix/<label>)
    expect_acc = [kind] if kind != 'rejected' else []
    if kind == 'hotfix':
        expect_acc = ['hotfix', 'legacy_hotfix']
    if sorted(accepting) != sorted(expect_acc):
        acc.violation(
            'ambiguous name %r: classified %s but accepted by the patterns '
            'of %s' % (name, kind, accepting), case,
            {'part': 'ambiguous', 'kind': kind,
             'accepting': sorted(accepting)})
    if kind == 'rejected':
        if fn != ['rejected', 'rejected']:
            acc.violation('is_cascade_consumer/producer(%r) = %r on a '
                          'rejected name' % (name, fn), case,
                          {'part': 'flags', 'kind': kind, 'flag': 'fn'})
        return okind
    dest, cons, prod = _flags(kind)
    names = ('can_be_destination', 'cascade_consumer', 'cascade_producer')
    for i, want in enumerate((dest, cons, prod)):
        if want is None:
            if count:
                acc.cls('either_producer_stabilization')
            continue
        if flags[i] is not want:
            acc.violation('%s of %r (%s) is %r, expected %r' %
                          (names[i], name, kind, flags[i], want), case,
                          {'part': 'flags', 'kind': kind, 'flag': names[i]})
    if fn[0] is not flags[1] or fn[1] is not flags[2]:
        acc.violation('is_cascade_consumer/producer(%r) = %r but the branch '
                      'object says %r' % (name, fn, flags[1:]), case,
                      {'part': 'flags', 'kind': kind, 'flag': 'fn'})
    return okind


# --------------------------------------------------------------------------
# bounded grammar
# --------------------------------------------------------------------------
OTHER_PREFIXES = ('development', 'stabilization', 'hotfix', 'release', 'user',
                  'w', 'q', 'q/w')
UNKNOWN = ('toto', 'origin', 'master', 'dev', 'stab', 'hot', 'bugfixes',
           'featur', 'features', 'tmp', 'x', 'origin/feature',
           'origin/development', 'refs/heads/development', 'w/w', 'q/q')
UPPER = ('Feature', 'BUGFIX', 'Epic', 'Development', 'DEVELOPMENT',
         'Stabilization', 'Hotfix', 'Release', 'User', 'W', 'Q', 'Q/W',
         'q/W')
ALL_PREFIXES = FPREFIXES + OTHER_PREFIXES + UNKNOWN + UPPER

VERSIONS_OK = ('4', '10', '0', '4.3', '10.0', '0.0', '5.1.4', '4.3.18',
               '10.0.0', '4.3.18.1', '10.0.0.12')
VERSIONS_BAD = ('', '4.', '.4', '4..3', '01', '01.2', '4.03', '4.3.018',
                'x', 'v4.3', '4.x', '4.3a', 'a4.3', '4.3.1.2.3', '4-3',
                '4_3', '4.3-1', '4.3.1.', '4.3.1.2.', '-1')
VERSIONS = VERSIONS_OK + VERSIONS_BAD

ATOMS = ('TEST-1', 'test-12', 'PROJ_2-034', 'x', 'foo', '1', '10', '4.3',
         '.', '-', '_', '/', 'w', 'q', 'bugfix', 'development')
L_SMALL = ATOMS + (
    'TEST-1-x', 'TEST-1-10.0', 'test-12_foo', 'TEST-12abc', '10-0', '_-1',
    'x/y', 'w/5.1/foo', 'q/1', '4.3/x', 'bugfix/x', 'feature/TEST-1',
    'a.lock', '-x', '_x', 'x.', 'x-', 'TEST-', 'TEST-x', '-1', 'TEST_1',
    'npm_and_yarn/ui/lodash-4.17.13', 'some-text_here', 'PROJECT-05-some')
L_MED = ('x', 'TEST-1', 'test-12-foo', '1', '4.3/x', 'w/5.1/foo', 'q/1',
         'x/y', '-', '_', 'TEST-1-10.0')
FEATURE_CONTEXTS = tuple(p + '/' for p in FPREFIXES) + (
    'w/4.3/bugfix/', 'w/10/feature/', 'w/4.3.18.1/epic/',
    'q/w/1/4.3/bugfix/', 'q/w/12/5.1.4/bug/', 'user/', 'hotfix/', 'toto/',
    'development/', 'q/', 'w/', 'q/w/', 'q/w/1/')
ROBOT_HEADS = ('w', 'q', 'q/w/1', 'q/w/12', 'q/w/007', 'q/w/0', 'q/w/x',
               'q/w/-1', 'q/w/1.2', 'q/w', 'W', 'q/W/1', 'Q/w/1', 'w/w',
               'q/q', 'q/w/w/1', 'q/w/1/w')


def big_labels(n=3):
    seen = set()
    out = []
    for k in range(0, n + 1):
        for combo in itertools.product(ATOMS, repeat=k):
            s = ''.join(combo)
            if s not in seen:
                seen.add(s)
                out.append(s)
    return out


def _join(*parts):
    return '/'.join(p for p in parts if p is not None)


def grammar_names():
    """Every name of the bounded grammar (with repetitions)."""
    big = big_labels()
    vers = VERSIONS + (None,)
    for p in ALL_PREFIXES:
        yield p
        for v in vers:
            for lab in L_SMALL + (None,):
                yield _join(p, v, lab)
    for ctx in FEATURE_CONTEXTS:
        for lab in big:
            yield ctx + lab
    inner = ALL_PREFIXES + (None,)
    for h in ROBOT_HEADS:
        for v in vers:
            for ip in inner:
                for lab in L_MED + (None,):
                    yield _join(h, v, ip, lab)


def shard_classify(ctx, shard, acc):
    lo, step = shard
    seen = set()
    filtered = 0
    for name in grammar_names():
        if zlib.crc32(name.encode()) % step != lo or name in seen:
            continue
        seen.add(name)
        if not valid_ref(name):
            filtered += 1
            continue
        check_name(name, acc, 'enum')
    acc.extra['enum_names_valid'] = len(seen) - filtered
    acc.extra['enum_names_filtered_invalid_ref'] = filtered


# --------------------------------------------------------------------------
# round trip through the real constructors
# --------------------------------------------------------------------------
_BR = ['development/4.3', 'stabilization/5.1.4', 'development/5.1',
       'development/10.0', 'development/10', 'hotfix/4.3.18',
       'hotfix/4.2.17', 'hotfix/10.0.0']
CASCADES = (
    {'branches': _BR, 'tags': []},
    {'branches': _BR, 'tags': ['4.3.17', '4.3.18', '4.3.18.1', '4.2.17.0',
                               '5.1.3', '10.0.0.0', 'v10.0.0.11']},
    {'branches': ['development/4', 'development/5.1', 'development/5',
                  'stabilization/6.0.0', 'development/6.0', 'development/6'],
     'tags': ['5.1.0']},
)
PR_IDS = (1, 12, 4321)


def rt_sources():
    """Valid source names of the feature grammar."""
    seen = set()
    short = big_labels(2)
    for p in FPREFIXES:
        for lab in tuple(short) + L_SMALL:
            s = p + '/' + lab
            if s not in seen and valid_ref(s) and \
                    classify(s)['kind'] == 'feature':
                seen.add(s)
                yield s
    for p in ('bugfix',):
        for lab in big_labels(3):
            s = p + '/' + lab
            if s not in seen and valid_ref(s) and \
                    classify(s)['kind'] == 'feature':
                seen.add(s)
                yield s
    for s in ('bugfix/4.3/x', 'feature/w/5.1/foo', 'improvement/q/1',
              'bugfix/TEST-1-10.0', 'feature/q/w/1/4.3/bugfix/x',
              'bugfix/development/4.3', 'epic/hotfix/4.3.18',
              'dependabot/npm_and_yarn/ui/lodash-4.17.13',
              'bugfix/w/4.3/bugfix/x', 'feature/1/4.3/feature/y'):
        if s not in seen:
            seen.add(s)
            yield s


def rt_configs():
    B, _ = _mods()
    for ci, cfg in enumerate(CASCADES):
        for name in cfg['branches']:
            if ci == 1 and not name.startswith('hotfix/'):
                continue  # same targets as cascade 0: tags only move hfrev
            if B.branch_factory(None, name).can_be_destination:
                yield ci, name


class FakeRepo:
    """Stands for git: every branch can be checked out."""
    def __init__(self, branches_of_commit=()):
        self.log = []
        self._boc = list(branches_of_commit)

    def checkout(self, name):
        pass

    def cmd(self, *args, **kw):
        self.log.append(args)
        return ''

    def get_branches_from_commit(self, commit):
        return list(self._boc)


class FakeHost:
    def __init__(self):
        self.queries = []

    def get_pull_requests(self, author=None, src_branch=None, status='OPEN'):
        self.queries.append(src_branch)
        return iter(())


def build_cascade(ci, dst_name):
    B, _ = _mods()
    cfg = CASCADES[ci]
    c = B.BranchCascade()
    dst = B.branch_factory(None, dst_name)
    for n in cfg['branches']:
        c.add_branch(B.branch_factory(None, n), dst)
    for t in cfg['tags']:
        c.update_versions(t)
    c._update_major_versions()
    c.finalize(dst)
    if not c.dst_branches:
        raise HarnessError('empty cascade for %s' % dst_name)
    return c, dst


def commit_parent(wname, use_queue):
    """The source branches the real handle_commit looks a PR up for."""
    from bert_e import exceptions as E
    from bert_e.workflow import gitwaterflow as gwf
    host = FakeHost()
    job = SimpleNamespace(
        git=SimpleNamespace(repo=FakeRepo([wname])), commit='c' * 40,
        settings=SimpleNamespace(use_queue=use_queue), project_repo=host,
        bert_e=None)
    try:
        gwf.handle_commit(job)
    except E.NothingToDo:
        pass
    return host.queries


def roundtrip(cascade, dst, pr_id, source, acc, case, checked):
    """All robot names of one (cascade, destination, pr, source)."""
    B, E = _mods()
    from bert_e.workflow.gitwaterflow import integration as I
    from bert_e.workflow.gitwaterflow import queueing as Q
    repo = FakeRepo()

    def bad(what, msg):
        acc.violation('round trip pr=%s dst=%s src=%r: %s' %
                      (pr_id, dst.name, source, msg), case,
                      {'part': 'roundtrip', 'what': what})

    try:
        src = B.branch_factory(repo, source)
    except E.UnrecognizedBranchPattern:
        return bad('source', 'valid source name is not recognised')
    job = SimpleNamespace(
        git=SimpleNamespace(repo=repo, src_branch=src, dst_branch=dst,
                            cascade=cascade),
        pull_request=SimpleNamespace(id=pr_id, src_branch=source))
    try:
        created = list(I.create_integration_branches(job))
        existing = list(I.get_integration_branches(job))
    except Exception as e:
        return bad('w_build', 'integration names: %s: %s' %
                   (type(e).__name__, e))
    targets = cascade.dst_branches
    if len(created) != len(targets) or len(existing) != len(targets):
        return bad('w_count', '%d/%d integration branches for %d targets' %
                   (len(created), len(existing), len(targets)))
    if created[0].name != source or \
            [b.name for b in created[1:]] != [b.name for b in existing[1:]]:
        return bad('w_names', 'create/get disagree: %s vs %s' %
                   (created, existing))

    def vt_of(vstr):
        nums = _version(vstr, (1, 2, 3, 4), True)
        if nums is None:
            raise HarnessError('target version %r' % vstr)
        return _vt(nums)

    for target, w, w0 in zip(targets, existing, created):
        v = target.version
        want_vt = vt_of(v)
        # --- integration branch ---
        if type(w) is not B.IntegrationBranch:
            bad('w_class', '%s parsed as %s' % (w.name, type(w).__name__))
        else:
            got = (w.version, [w.major, w.minor, w.micro, w.hfrev],
                   w.feature_branch)
            if got != (v, want_vt, source):
                bad('w_attrs', '%s parsed back as version=%r %r source=%r' %
                    ((w.name,) + got))
            if (w.prefix, (w.jira_issue_key or '').upper()) != \
                    (src.prefix, src.jira_issue_key or ''):
                bad('w_ticket', '%s: prefix/ticket %r/%r, source has %r/%r' %
                    (w.name, w.prefix, w.jira_issue_key, src.prefix,
                     src.jira_issue_key))
            for uq in (False, True):
                if w.name in checked:
                    break
                q = commit_parent(w.name, uq)
                if q != [[source]]:
                    bad('commit_parent', 'handle_commit on %s looks for '
                        'pull requests from %r' % (w.name, q))
        # --- queue branch ---
        try:
            qb = Q.get_queue_branch(job, w0.dst_branch)
        except Exception as e:
            bad('q_build', 'q/%s: %s' % (v, type(e).__name__))
            qb = None
        if qb is not None:
            if type(qb) is not B.QueueBranch:
                bad('q_class', '%s parsed as %s' %
                    (qb.name, type(qb).__name__))
            elif (qb.version, [qb.major, qb.minor, qb.micro, qb.hfrev]) != \
                    (v, want_vt):
                bad('q_attrs', '%s parsed back as %r' % (qb.name, qb.version))
            elif qb.dst_branch.name != target.name:
                acc.cls('stat_queue_maps_to_other_destination')
                acc.extra.setdefault('queue_destination_mismatch', [])
                m = '%s (queue of %s) -> %s' % (qb.name, target.name,
                                                qb.dst_branch.name)
                if m not in acc.extra['queue_destination_mismatch']:
                    acc.extra['queue_destination_mismatch'].append(m)
        # --- queue integration branch ---
        try:
            qi = Q.get_queue_integration_branch(job, pr_id, w0)
        except Exception as e:
            bad('qw_build', 'q/w/%s/%s/%s: %s' % (pr_id, v, source,
                                                  type(e).__name__))
            qi = None
        if qi is not None:
            if type(qi) is not B.QueueIntegrationBranch:
                bad('qw_class', '%s parsed as %s' %
                    (qi.name, type(qi).__name__))
            else:
                got = (qi.pr_id, qi.version,
                       [qi.major, qi.minor, qi.micro, qi.hfrev],
                       qi.feature_branch)
                if got != (pr_id, v, want_vt, source):
                    bad('qw_attrs', '%s parsed back as pr=%r version=%r %r '
                        'source=%r' % ((qi.name,) + got))
        # --- the version as a tuple (the key QueueCollection files queues
        # under): a zero component is a component
        # (major, minor) always; minor is None for a major-only version
        want_t = tuple(want_vt[:2]) + tuple(
            x for x in want_vt[2:] if x is not None)
        for b in (w, qb, qi):
            if b is None:
                continue
            try:
                got_t = tuple(b.version_t)
            except Exception as e:
                got_t = 'exception %s' % type(e).__name__
            if got_t != want_t:
                bad('version_tuple', '%s: version_t %r, version is %r' %
                    (b.name, got_t, want_t))
        # --- the independent parser on the same names ---
        for b, kind in ((w, 'integration'), (qb, 'queue'),
                        (qi, 'queue_integration')):
            if b is None or b.name in checked:
                continue
            checked.add(b.name)
            o = classify(b.name)
            if o['kind'] != kind or o.get('version') != v or \
                    (kind != 'queue' and o.get('feature_branch') != source) \
                    or (kind == 'queue_integration' and
                        o.get('pr_id') != pr_id):
                bad('oracle_parse', 'the independent parser reads %s as %s' %
                    (b.name, o))
            check_name(b.name, acc, 'robot', count=False)


def shard_roundtrip(ctx, shard, acc):
    lo, step = shard
    sources = list(rt_sources())
    checked = set()
    n = 0
    for ci, dst_name in rt_configs():
        cascade, dst = build_cascade(ci, dst_name)
        for si, source in enumerate(sources):
            if si % step != lo:
                continue
            label = source.partition('/')[2]
            nontriv = any(c in _DIGITS + './' for c in label)
            for pr_id in PR_IDS:
                case = {'kind': 'roundtrip', 'cascade': ci, 'dst': dst_name,
                        'pr': pr_id, 'src': source}
                roundtrip(cascade, dst, pr_id, source, acc, case, checked)
                acc.case('rt|%d|%s|%d|%s' % (ci, dst_name, pr_id, source),
                         nontriv, classes=['roundtrip'],
                         sample=case if n % 997 == 0 else None)
                n += 1
    acc.extra['roundtrip_triples'] = n
    acc.extra['roundtrip_robot_names'] = len(checked)


# --------------------------------------------------------------------------
# the cascade as read from a repository listing
# --------------------------------------------------------------------------
_LISTING_STD = ('development/4.3', 'stabilization/5.1.4', 'development/5.1',
                'development/10.0', 'hotfix/4.3.18')
_DEST_FRAGMENTS = ('development/11.0', 'development/11', 'development/4.4',
                   'stabilization/7.4.0', 'stabilization/5.1.5',
                   'hotfix/9.9.9', 'hotfix/4.3.19')


def listing_names():
    """Names that are NOT destinations (by the reference grammar) although
    they contain digits, dots, slashes and version-like or destination-like
    fragments."""
    seen = set()
    cands = list(rt_sources())
    for frag in _DEST_FRAGMENTS:
        for p in FPREFIXES + ('user/joe', 'release', 'toto'):
            cands.append(p + '/' + frag)
            cands.append(p + '/x-' + frag)
        cands.append('w/5.1/feature/' + frag)
        cands.append('q/w/7/5.1/feature/' + frag)
    for s in cands:
        if s in seen or not valid_ref(s):
            continue
        if classify(s)['kind'] in DEST_KINDS:
            continue
        seen.add(s)
        yield s


def _listing_cascade(extras, dst_name):
    from vf import fakegit as fg
    B, _ = _mods()
    be = fg.MemBackend()
    be.root(_LISTING_STD[0], 'root')
    for n in _LISTING_STD[1:]:
        be.branch(n, _LISTING_STD[0])
        be.commit(n, 'on ' + n)
    for e in extras:
        if e not in be.dag.refs:
            be.branch(e, _LISTING_STD[0])
    be.tag('4.3.17', _LISTING_STD[0])
    repo = fg.FakeRepo(be.dag)
    c = B.BranchCascade()
    dst = B.branch_factory(repo, dst_name)
    try:
        c.build(repo, dst)
    except Exception as e:      # an outcome
        return ('exc', type(e).__name__)
    inside = sorted(set(
        b.name for v in c._cascade.values() for b in v.values()
        if b is not None and hasattr(b, 'name')))
    return ('ok', [b.name for b in c.dst_branches],
            list(c.ignored_branches), list(c.target_versions), inside)


def shard_listing(ctx, shard, acc):
    """Metamorphic: branches that are not destinations do not change the
    cascade BranchCascade.build() reads from the repository."""
    lo, step = shard
    names = list(listing_names())
    for dst_name in ('development/4.3', 'development/5.1', 'hotfix/4.3.18'):
        base = _listing_cascade((), dst_name)
        if base[0] != 'ok':
            raise HarnessError('listing baseline failed: %r' % (base,))
        for i, s in enumerate(names):
            if i % step != lo:
                continue
            extras = (s, 'w/5.1/' + s, 'q/w/3/5.1/' + s) \
                if classify(s)['kind'] == 'feature' else (s,)
            got = _listing_cascade(extras, dst_name)
            case = {'kind': 'listing', 'dst': dst_name, 'extra': s}
            nontriv = any(f in s for f in ('development/', 'stabilization/',
                                           'hotfix/'))
            acc.case('ls|%s|%s' % (dst_name, s), nontriv,
                     classes=['listing'], sample=case if i % 97 == 0 else None)
            if got != base:
                acc.violation(
                    'C18: with branch %r in the repository (not a '
                    'destination) the cascade for %s reads %r instead of %r'
                    % (s, dst_name, got, base), case,
                    {'part': 'listing', 'clause': 'phantom_destination'})
                return


def replay_listing(case, acc):
    s = case['extra']
    base = _listing_cascade((), case['dst'])
    extras = (s, 'w/5.1/' + s, 'q/w/3/5.1/' + s) \
        if classify(s)['kind'] == 'feature' else (s,)
    got = _listing_cascade(extras, case['dst'])
    if got != base:
        acc.violation('C18: with branch %r in the repository the cascade for '
                      '%s reads %r instead of %r' % (s, case['dst'], got,
                                                     base), case,
                      {'part': 'listing', 'clause': 'phantom_destination'})


# --------------------------------------------------------------------------
# Hypothesis raw-text differential
# --------------------------------------------------------------------------
ALPHABET = ('abcdefghijklmnopqrstuvwxyz' + 'TESPROJWQDFBUH' + _DIGITS +
            './-_' + '\n @~^:')
TOKENS = tuple(sorted(set(
    ALL_PREFIXES + VERSIONS_OK + ATOMS +
    ('/', '/', '/', '.', '-', '_', '\n', ' ', '0', '7', '12', '007', 'q/w',
     'TEST-', '-1', '.lock', '..', '@{', 'lock'))))
SEEDS = ('development/4.3', 'development/10', 'stabilization/5.1.4',
         'hotfix/4.3.18', 'hotfix/customer', 'release/4.3', 'user/jdoe/x',
         'bugfix/TEST-1-fix', 'feature/test-12', 'epic/some-text_here',
         'w/4.3/bugfix/TEST-1-fix', 'w/10/feature/test-12',
         'w/4.3.18.1/bugfix/TEST-1', 'q/4.3', 'q/10', 'q/5.1.4',
         'q/4.3.18.1', 'q/w/12/4.3/bugfix/TEST-1-fix',
         'q/w/1/4.3.18.1/bugfix/x', 'q/w/7/10/feature/w/5.1/foo')


def _mutate(t):
    name, pos, ch, op = t
    pos = pos % (len(name) + 1)
    if op == 'i':
        return name[:pos] + ch + name[pos:]
    if op == 'd':
        return name[:pos] + name[pos + 1:]
    if op == 's':
        return name[pos:] + name[:pos]
    return name[:pos] + ch + name[pos + 1:]


def shard_fuzz(ctx, shard, acc):
    from hypothesis import HealthCheck, given, seed, settings
    from hypothesis import strategies as st
    idx, n_examples = shard
    strat = st.one_of(
        st.lists(st.sampled_from(TOKENS), max_size=7).map(''.join),
        st.text(alphabet=ALPHABET, max_size=24),
        st.tuples(st.sampled_from(SEEDS), st.integers(0, 40),
                  st.sampled_from(ALPHABET),
                  st.sampled_from('idrs')).map(_mutate),
        st.tuples(st.sampled_from(SEEDS), st.integers(0, 40),
                  st.sampled_from(TOKENS),
                  st.sampled_from('ir')).map(_mutate))
    seen = set()

    @seed(ctx['seed'] * 1000 + idx)
    @settings(database=None, deadline=None, derandomize=False,
              report_multiple_bugs=False,
              suppress_health_check=list(HealthCheck),
              max_examples=n_examples)
    @given(strat)
    def prop(name):
        if name in seen:
            return
        seen.add(name)
        check_name(name, acc, 'fuzz')

    prop()
    acc.extra['fuzz_distinct_names'] = len(seen)


# --------------------------------------------------------------------------
# atheris (thorough tier): coverage guided by the hand-written parser
# --------------------------------------------------------------------------
def _atheris_available():
    try:
        import atheris  # noqa: F401
        return True
    except Exception:
        pass
    deps = os.path.join(os.environ.get('VERIF_HOME', '/verif'), '.deps')
    try:
        subprocess.run(
            [sys.executable, '-m', 'pip', 'install', '-q', '--no-index',
             '--find-links', '/opt/veriftools/wheels', '--target', deps,
             'atheris'], stdout=subprocess.DEVNULL,
            stderr=subprocess.DEVNULL, timeout=300)
    except Exception:
        return False
    r = subprocess.run([sys.executable, '-c', 'import atheris'],
                       stdout=subprocess.DEVNULL, stderr=subprocess.DEVNULL)
    return r.returncode == 0


def shard_atheris(ctx, shard, acc):
    idx, runs = shard
    work = tempfile.mkdtemp(prefix='vf-c18-atheris-')
    try:
        with open(os.path.join(work, 'dict'), 'w') as f:
            for t in TOKENS:
                if t and all(32 < ord(c) < 127 and c not in '"\\' for c in t):
                    f.write('"%s"\n' % t)
        corpus = os.path.join(work, 'corpus')
        os.mkdir(corpus)
        for i, s in enumerate(SEEDS):
            with open(os.path.join(corpus, 'seed%02d' % i), 'w') as f:
                f.write(s)
        out = os.path.join(work, 'out.json')
        r = subprocess.run(
            [sys.executable, '-m', 'vf.checks.c18', 'atheris', out,
             '-runs=%d' % runs, '-seed=%d' % (ctx['seed'] * 1000 + idx + 1),
             '-dict=' + os.path.join(work, 'dict'), '-max_len=48',
             '-len_control=0', '-verbosity=0', '-print_final_stats=0',
             corpus],
            stdout=subprocess.PIPE, stderr=subprocess.STDOUT, cwd=work)
        if not os.path.exists(out):
            raise HarnessError('atheris child failed (rc=%s): %s' % (
                r.returncode, r.stdout.decode('utf-8', 'replace')[-1500:]))
        with open(out) as f:
            acc.merge_dump(json.load(f))
    finally:
        shutil.rmtree(work, ignore_errors=True)


def _atheris_main(argv):
    """Child process: python -m vf.checks.c18 atheris OUT <libfuzzer args>"""
    import atheris
    out = argv[0]
    acc = Acc()
    seen = set()
    g = globals()
    for fname in ('classify', '_integration', '_feature', '_ticket',
                  '_version', '_number', 'valid_ref'):
        g[fname] = atheris.instrument_func(g[fname])
    _mods()

    def flush():
        acc.extra['atheris_execs'] = state['n']
        acc.extra['atheris_distinct_names'] = len(seen)
        tmp = out + '.tmp'
        with open(tmp, 'w') as f:
            json.dump(acc.dump(), f, default=str)
        os.replace(tmp, out)

    state = {'n': 0}
    runs = 0
    for a in argv:
        if a.startswith('-runs='):
            runs = int(a[6:])

    def one(data):
        state['n'] += 1
        try:
            _one(data)
        finally:
            # libFuzzer leaves with exit(): nothing runs after the last
            # input, so the results are written at fixed execution counts
            if state['n'] % 20000 == 0 or state['n'] >= runs:
                flush()

    def _one(data):
        name = data.decode('latin-1')
        # keep to the alphabet of the grammar
        name = ''.join(c if c in ALPHABET else ALPHABET[ord(c) %
                                                        len(ALPHABET)]
                       for c in name)
        if name in seen:
            return
        seen.add(name)
        check_name(name, acc, 'atheris')

    atheris.Setup([sys.argv[0]] + argv[1:], one)
    atheris.Fuzz()


# --------------------------------------------------------------------------
# self tests (disagreement = harness error)
# --------------------------------------------------------------------------
PINNED_NOT_FEATURE = ('user/4.3/TEST-0005', 'TEST-0001-my-fix', 'my-fix',
                      'origin/feature/TEST-0001', '/feature/TEST-0001',
                      'toto/TEST-0005', 'release/4.3', 'feature', 'feature/',
                      'epic', 'epic/')
PINNED_FEATURE = (('feature/TEST-0005', 'TEST-0005', 'TEST'),
                  ('improvement/TEST-1234', 'TEST-1234', 'TEST'),
                  ('bugfix/TEST-1234', 'TEST-1234', 'TEST'),
                  ('epic/TEST-1234', 'TEST-1234', 'TEST'),
                  ('project/TEST-0005', 'TEST-0005', 'TEST'),
                  ('project/test-0006', 'TEST-0006', 'TEST'),
                  ('feature/PROJECT-05-some-text_here', 'PROJECT-05',
                   'PROJECT'),
                  ('feature/some-text_here', None, None),
                  ('dependabot/npm_and_yarn/ui/lodash-4.17.13', None, None))
PINNED_DEST = (('feature-TEST-0005', 'rejected'),
               ('development/4.3', 'development'),
               ('development/5.1', 'development'),
               ('development/10.0', 'development'),
               ('stabilization/6.6.6', 'stabilization'),
               ('hotfix/6.6.6', 'hotfix'))
REF_SAMPLES = ('feature/x', 'feature/', '/feature', 'a//b', 'a/.b', 'a/b.',
               'a..b', 'a.lock', 'a.lock/b', 'a/b.lock', '-a', 'a/-b', '@',
               'a@{b', 'a@b', 'HEAD', 'a b', 'a~b', 'a^b', 'a:b', 'a?b',
               'a*b', 'a[b', 'a\\b', 'a\nb', 'a\n', 'a\x7fb', '.a', 'a.',
               'a/.', 'a./b', 'a-', '_', '-', '.', '', 'w/4.3/bugfix/x',
               'q/w/1/4.3/bugfix/x', 'x.lock.y', 'a/@', '@/a', 'a]b', 'a{b')


def self_test():
    for n in PINNED_NOT_FEATURE:
        if classify(n)['kind'] == 'feature':
            raise HarnessError('oracle vs pinned test: %r is a feature' % n)
    for n, key, proj in PINNED_FEATURE:
        o = classify(n)
        if (o['kind'], o.get('key'), o.get('project')) != \
                ('feature', key, proj) or o.get('key_doubt'):
            raise HarnessError('oracle vs pinned test: %r -> %r' % (n, o))
    for n, kind in PINNED_DEST:
        if classify(n)['kind'] != kind:
            raise HarnessError('oracle vs pinned test: %r is not %s' %
                               (n, kind))
    # own check-ref-format predicate against git, on a sample
    sample = list(REF_SAMPLES)
    for i, n in enumerate(grammar_names()):
        if i % 2503 == 0:
            sample.append(n)
    for i, t in enumerate(itertools.product(TOKENS[::7], repeat=2)):
        if i % 3 == 0:
            sample.append(''.join(t))
    sample = sorted(set(sample))
    bad = []
    for n in sample:
        if '\x00' in n or n == '@':
            # '@' alone: git's answer depends on being inside a repository
            continue
        r = subprocess.run(['git', 'check-ref-format', '--branch', n],
                           stdout=subprocess.DEVNULL,
                           stderr=subprocess.DEVNULL, cwd='/')
        if (r.returncode == 0) != valid_ref(n):
            bad.append(n)
    if bad:
        raise HarnessError('valid_ref disagrees with git check-ref-format '
                           'on %r' % bad[:10])
    return len(sample)


# --------------------------------------------------------------------------
def run(ctx):
    n = ctx['nproc']
    thorough = ctx['tier'] == 'thorough'
    n_ref = self_test()
    acc = run_shards(__name__, 'shard_classify', ctx,
                     [(i, n) for i in range(n)])
    acc.extra['exhaustive'] = True
    acc.extra['self_test'] = ('pinned QuickTest names agree with the oracle; '
                              'valid_ref == git check-ref-format on %d '
                              'names' % n_ref)
    acc2 = run_shards(__name__, 'shard_roundtrip', ctx,
                      [(i, n) for i in range(n)])
    acc.merge_dump(acc2.dump())
    acc.merge_dump(run_shards(__name__, 'shard_listing', ctx,
                              [(i, n) for i in range(n)]).dump())
    fuzz_examples = 40000 if thorough else 1500
    have_atheris = thorough and _atheris_available()
    if thorough and not have_atheris:
        fuzz_examples *= 3
        acc.notes.append('atheris not importable for this interpreter: '
                         'Hypothesis examples tripled instead')
    acc3 = run_shards(__name__, 'shard_fuzz', ctx,
                      [(i, fuzz_examples) for i in range(16)])
    acc.merge_dump(acc3.dump())
    if have_atheris:
        acc4 = run_shards(__name__, 'shard_atheris', ctx,
                          [(i, 400000) for i in range(16)])
        acc.merge_dump(acc4.dump())
        acc.extra['atheris'] = 'ran'
    else:
        acc.extra['atheris'] = 'not run (%s)' % (
            'unavailable' if thorough else 'quick tier')
    return acc


def replay(ctx, case, acc):
    if case.get('kind') == 'name':
        check_name(case['name'], acc, 'replay')
    elif case.get('kind') == 'roundtrip':
        cascade, dst = build_cascade(case['cascade'], case['dst'])
        roundtrip(cascade, dst, case['pr'], case['src'], acc, case, set())
    elif case.get('kind') == 'listing':
        replay_listing(case, acc)
    else:
        raise HarnessError('unknown case kind %r' % case.get('kind'))


if __name__ == '__main__':
    if len(sys.argv) > 2 and sys.argv[1] == 'atheris':
        _atheris_main(sys.argv[2:])
