"""C16 part B: GitHub password and GitHub-App authentication flows of the real
client over a scripted HTTP transport, including failing responses."""
import json
import logging

from hypothesis import HealthCheck, Phase, given, seed, settings
from hypothesis import strategies as st

from vf.cli import jhash

CODES = (200, 401, 403, 404, 500, 429, 502)
INSTALL_TOKEN = 'ghs_1NsTaLLaTi0nT0kenSentinel9f3a'
_KEY = []


def private_key_pem():
    if not _KEY:
        from cryptography.hazmat.primitives import serialization
        from cryptography.hazmat.primitives.asymmetric import rsa
        key = rsa.generate_private_key(public_exponent=65537, key_size=2048)
        _KEY.append(key.private_bytes(
            serialization.Encoding.PEM,
            serialization.PrivateFormat.TraditionalOpenSSL,
            serialization.NoEncryption()).decode())
    return _KEY[0]


REPO = {'name': 'slug', 'full_name': 'own/slug', 'id': 1,
        'owner': {'id': 7, 'login': 'own', 'type': 'Organization'},
        'private': True, 'default_branch': 'development/1.0',
        'clone_url': 'https://github.com/own/slug.git'}
USER = {'id': 3, 'login': 'robot', 'type': 'User'}


def pr_json(n=1):
    return {'number': n, 'id': n, 'title': 't', 'state': 'open',
            'body': '', 'html_url': 'http://x/%d' % n,
            'created_at': '2020-01-01T00:00:00Z',
            'updated_at': '2020-01-01T00:00:00Z', 'merged_at': None,
            'user': USER,
            'head': {'sha': 'a' * 40, 'ref': 'bugfix/x', 'repo': REPO,
                     'label': 'own:bugfix/x', 'user': USER},
            'base': {'sha': 'b' * 40, 'ref': 'development/1.0',
                     'repo': REPO, 'label': 'own:development/1.0',
                     'user': USER}}


def body_for(method, path):
    if path.endswith('/access_tokens'):
        return {'token': INSTALL_TOKEN,
                'expires_at': '2030-01-01T00:00:00Z'}
    if '/pulls/' in path and path.endswith('/reviews'):
        return []
    if '/comments' in path:
        if method == 'GET':
            return []
        return {'id': 1, 'body': 'x', 'user': USER,
                'created_at': '2020-01-01T00:00:00Z'}
    if '/pulls/' in path:
        return pr_json()
    if path.endswith('/pulls'):
        return [pr_json()] if method == 'GET' else pr_json()
    if path.endswith('/status'):
        return {'sha': 'a' * 40, 'state': 'success', 'statuses': [],
                'repository': REPO}
    if '/statuses/' in path:
        return {'state': 'success', 'context': 'pre-merge',
                'description': 'd', 'target_url': 'http://ci'}
    if '/actions/runs' in path:
        return {'total_count': 0, 'workflow_runs': []}
    if path == '/user':
        return USER
    if path.startswith('/repos/'):
        return REPO
    return {}


class Transport:
    """Scripted answer of api.github.com; codes chosen per request index."""
    def __init__(self, codes):
        self.codes = list(codes)
        self.n = 0
        self.log = []

    def send(self, adapter, request, **kw):
        import requests
        from requests.structures import CaseInsensitiveDict
        from urllib.parse import urlsplit
        import datetime
        u = urlsplit(request.url)
        code = self.codes[self.n % len(self.codes)] if self.codes else 200
        self.n += 1
        self.log.append((request.method, u.path, code))
        r = requests.Response()
        r.status_code = code
        body = body_for(request.method, u.path) if code == 200 else \
            {'message': 'Bad credentials' if code == 401 else 'error',
             'documentation_url': 'https://docs.github.com/rest'}
        r._content = json.dumps(body).encode()
        r.headers = CaseInsensitiveDict({'Content-Type': 'application/json'})
        r.url = request.url
        r.request = request
        r.reason = {200: 'OK', 401: 'Unauthorized', 403: 'Forbidden',
                    404: 'Not Found', 500: 'Internal Server Error',
                    429: 'Too Many Requests', 502: 'Bad Gateway'}[code]
        r.encoding = 'utf-8'
        r.elapsed = datetime.timedelta(microseconds=5)
        return r


OPS = ('get_repository', 'get_pull_request', 'get_pull_requests',
       'get_build_status', 'set_build_status', 'add_comment',
       'get_comments', 'get_approvals', 'create_pull_request', 'git_url')


def drive(flow, password, ops, codes):
    """Returns (sinks, secrets)."""
    import requests.adapters as ra
    import bert_e.git_host.base as base
    from bert_e.git_host import github
    from bert_e.git_host.cache import BUILD_STATUS_CACHE
    from vf.checks.c16 import Capture, FdCapture, forms
    for k in list(BUILD_STATUS_CACHE.keys()):
        del BUILD_STATUS_CACHE[k]
    tr = Transport(codes)
    orig_send = ra.HTTPAdapter.send
    orig_sleep = base.time.sleep
    orig_jwt = github.Client._get_jwt
    jwts = []

    def jwt_spy(self):
        t = orig_jwt(self)
        jwts.append(t)
        return t
    ra.HTTPAdapter.send = lambda self, request, **kw: tr.send(self, request,
                                                              **kw)
    base.time.sleep = lambda n: None
    github.Client._get_jwt = jwt_spy
    try:
        github.Client._get_installation_token.cache_clear()
    except Exception:
        pass
    cap = Capture()
    root = logging.getLogger()
    old = root.level
    root.addHandler(cap)
    root.setLevel(logging.DEBUG)
    sinks = []
    errors = []

    def attempt(name, fn):
        try:
            return fn()
        except Exception as e:   # every exception is an observable message
            errors.append(e)
            chain, n = e, 0
            while chain is not None and n < 8:
                n += 1
                for f in (str, repr):
                    try:
                        sinks.append(('exception from %s' % name, f(chain)))
                    except Exception:
                        pass
                chain = chain.__cause__ or (
                    None if chain.__suppress_context__
                    else chain.__context__)
            return None
    try:
        with FdCapture() as fd:
            kw = {}
            if flow == 'app':
                kw = dict(app_id=4242, installation_id=777,
                          private_key=private_key_pem())
            client = attempt('Client()', lambda: github.Client(
                'robot', password, 'robot@nowhere.com', **kw))
            repo = None
            pr = None
            if client is not None:
                repo = attempt('get_repository',
                               lambda: client.get_repository('slug', 'own'))
            for op in ops:
                if client is None:
                    break
                if op == 'get_repository':
                    repo = attempt(op, lambda: client.get_repository(
                        'slug', 'own')) or repo
                elif repo is None:
                    continue
                elif op == 'get_pull_request':
                    pr = attempt(op, lambda: repo.get_pull_request(1)) or pr
                elif op == 'get_pull_requests':
                    attempt(op, lambda: list(repo.get_pull_requests()))
                elif op == 'get_build_status':
                    attempt(op, lambda: repo.get_build_status('a' * 40,
                                                              'pre-merge'))
                elif op == 'set_build_status':
                    attempt(op, lambda: repo.set_build_status(
                        'a' * 40, 'pre-merge', 'SUCCESSFUL',
                        url='http://ci', description='d'))
                elif op == 'create_pull_request':
                    attempt(op, lambda: repo.create_pull_request(
                        title='t', src_branch='w/1/x',
                        dst_branch='development/1.0', description='d'))
                elif op == 'git_url':
                    # the clone URL is a secret by construction; it must only
                    # ever reach git, never a sink: not added to sinks
                    attempt(op, lambda: repo.git_url)
                elif pr is None:
                    continue
                elif op == 'add_comment':
                    attempt(op, lambda: pr.add_comment('hello'))
                elif op == 'get_comments':
                    attempt(op, lambda: list(pr.get_comments()))
                elif op == 'get_approvals':
                    attempt(op, lambda: list(pr.get_approvals()))
    finally:
        root.removeHandler(cap)
        root.setLevel(old)
        ra.HTTPAdapter.send = orig_send
        base.time.sleep = orig_sleep
        github.Client._get_jwt = orig_jwt
    sinks += [('log', r) for r in cap.records]
    sinks.append(('stdout/stderr', fd.text))
    secrets = forms(password)
    if flow == 'app':
        secrets += [INSTALL_TOKEN] + jwts
        pem = private_key_pem().splitlines()
        secrets += [l for l in pem[1:4]]
    return sinks, secrets, tr.log


def check_case(case, acc, record=True):
    from vf.checks.c16 import scan
    sinks, secrets, log = drive(case['flow'], case['password'], case['ops'],
                                case['codes'])
    hits = scan(sinks, secrets)
    failing = any(c != 200 for _, _, c in log)
    if record:
        acc.case(jhash(case), bool(log) and failing,
                 sample=dict(case, requests=log[:12]),
                 classes=['github_flow_' + case['flow']] +
                 ['github_code_%d' % c for c in sorted(set(
                     c for _, _, c in log))])
    out = []
    for sink, ctxt in hits:
        secret_kind = 'password'
        if INSTALL_TOKEN in ctxt:
            secret_kind = 'installation_token'
        elif 'Bearer ' in ctxt or 'eyJ' in ctxt:
            secret_kind = 'jwt'
        sig = {'part': 'github', 'flow': case['flow'],
               'sink': sink.split(' from ')[0], 'secret': secret_kind}
        out.append(('C16: %s found in %s (flow %s): ...%s...' % (
            secret_kind, sink, case['flow'], ctxt), sig))
    return out


def run_shard(ctx, shard, acc):
    n = 150 if ctx['tier'] == 'quick' else 3000
    found = {}

    @seed(ctx['seed'] * 1000 + 900 + shard)
    @settings(max_examples=n, database=None, deadline=None,
              derandomize=False, report_multiple_bugs=False,
              suppress_health_check=list(HealthCheck),
              phases=[Phase.generate])
    @given(st.sampled_from(['password', 'app']),
           st.text(alphabet='aZ9@:/?&=+ %#$\'"!*();|<>\\é€`~,.-_',
                   min_size=10, max_size=18),
           st.lists(st.sampled_from(OPS), min_size=1, max_size=6),
           st.lists(st.sampled_from(CODES + (200, 200)), min_size=1,
                    max_size=8))
    def run(flow, pw, ops, codes):
        case = {'part': 'github', 'flow': flow, 'password': 'S3' + pw + 'x!',
                'ops': ops, 'codes': codes}
        for msg, sig in check_case(case, acc):
            k = json.dumps(sig, sort_keys=True)
            size = len(ops) + len(codes)
            if k not in found or size < found[k][0]:
                found[k] = (size, msg, case, sig)
    run()
    for k, (size, msg, case, sig) in sorted(found.items()):
        acc.violation(msg, case, sig)


def replay(ctx, case, acc):
    for msg, sig in check_case(case, acc, record=False):
        acc.violation(msg, case, sig)
