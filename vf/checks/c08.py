"""C08: Bert-E never rewrites or deletes what it does not own; third-party
actions placed immediately before each push of each job."""
from hypothesis import strategies as st

from vf.cli import run_shards
from vf.sim import monitors as M
from vf.sim.driver import replay_case, draw_steps
from vf.sim.explore import explore, sig_key
from vf.sim.world import Scratch

LEVEL = 'exploration'
RULE = ('Histories as in C01 (all modes); for a generated subset of the jobs '
        '(every job that pushes, capped per history) the job is first run on '
        'a snapshot to count its `git push` command lines, then re-run from '
        'the same snapshot once per (push index k, third-party action in '
        '{create a new branch with a new commit, push a commit to a PR '
        'source branch, force-push a PR source branch}) with the action '
        'executed immediately before push k (plus, for delete-branch jobs, '
        'a racing tag with the archive-tag name; plus one run per ref the '
        'job updates with that single ref refused by the remote) (schedule '
        'placement owned by '
        'the harness through the subprocess module seen by '
        'bert_e.lib.simplecmd). Oracle on the ref journal of the remote '
        '(reference-transaction hook, actor = Bert-E): destination updates '
        'are fast-forwards; no create/update/delete of any ref outside w/*, '
        'q/*, tmp/* and destinations; destination deletion only by the '
        'delete-branch job after its archive tag; every commit that ever was '
        'a destination tip stays reachable. Non-trivial = a placed run in '
        'which Bert-E still changed >= 1 ref after the third-party action; '
        'distinct by hash of (params, steps).')
ASSUMPTIONS = ['in-tree mock git host; real git on a local bare remote',
               'third-party actions are atomic with respect to Bert-E\'s '
               'git commands (placed between two commands, not inside one)']

ACTIONS = ('new_branch', 'push_src', 'force_src')
import re
NET_RE = re.compile(r'^\s*git\s+(fetch|remote\s+update|ls-remote|clone)\b')


class Placed(M.Monitor):
    def after_job(self, hist, res, step):
        if step.get('op') == 'rejected':
            hist.count('rejected_ref_runs')
        if step.get('op') == 'cmdfail':
            hist.count('failed_network_command_runs')
        if step.get('op') == 'placed' and 'cmd' in step:
            hist.count('placed_before_network_command')
        if step.get('op') == 'placed':
            hist.count('placed_runs')
            seen_third = False
            after = 0
            for tx in res.txs:
                for a, _, _, ref in tx:
                    if a == 'third':
                        seen_third = True
                    elif a == 'berte' and seen_third:
                        after += 1
            if seen_third:
                hist.count('placed_third_action_effective')
            if after:
                hist.count('placed_nontrivial')
                hist.flags.add('c08_nontrivial')
            hist.count('placed_' + step['action']['kind'])
        return ()


def monitors():
    return [Placed(), M.C08Passive()]


def body_factory(tier, known):
    max_jobs = 3 if tier == 'quick' else 5
    max_rejects = 3 if tier == 'quick' else 100
    max_net = 2 if tier == 'quick' else 100

    def body(data, hist):
        n = data.draw(st.integers(8, 26), label='nsteps')
        placed_jobs = 0
        stop = False
        pending_delete = []
        if data.draw(st.integers(0, 2), label='directed_create') == 0:
            # a create-branch job that is certain to publish its branch
            # (a new last development branch), with the racing placements
            import re as _re
            vs = [tuple(int(x) for x in m.group(1).split('.'))
                  for m in (_re.match(r'development/(\d+(?:\.\d+)?)$', b)
                            for b in hist.world.heads()) if m]
            if vs:
                pending_delete.append({
                    'op': 'admin', 'kind': 'create_branch',
                    'args': {'branch': 'development/%d.0' % (
                        max(v[0] for v in vs) + 1)}})
                hist.flags.add('c08_directed_create')
        if data.draw(st.integers(0, 3), label='recycle') <= 1 and \
                hist.world.chain:
            # a hotfix branch is created, archived, created again (legal:
            # its archive tag has another name than its version), receives
            # a merge and is deleted a second time: the old archive tag is
            # not on the new tip
            from vf.sim.world import AUTHOR, PEER1, PEER2
            low_ = hist.world.chain[0]
            hb = 'hotfix/%s.3' % low_.split('/')[1] if low_.count('.') \
                else 'hotfix/%s.0.3' % low_.split('/')[1]
            from_ = hist.world.heads().get(low_)

            def admin_(kind_, **args_):
                hist.apply({'op': 'admin', 'kind': kind_, 'args': args_})
                hist.apply({'op': 'drain'})
            # upstream's convention: the release the hotfix branch starts
            # from is tagged x.y.z.0 (by the release manager)
            hist.apply({'op': 'third', 'action': {
                'kind': 'new_tag', 'name': hb.split('/')[1] + '.0'}})
            admin_('create_branch', branch=hb)
            admin_('delete_branch', branch=hb)
            admin_('create_branch', branch=hb)
            if hb in hist.world.heads() and not hist.violations:
                hist.apply({'op': 'open_pr', 'src': 'bugfix/TEST-77-hfx',
                            'dst': hb, 'author': AUTHOR, 'base_back': 0})
                pr_ = max(hist.world.prs) if hist.world.prs else None
                if pr_ is not None:
                    for u in (PEER1, PEER2, AUTHOR):
                        hist.apply({'op': 'approve', 'pr': pr_, 'user': u})
                    for _ in range(2):
                        hist.apply({'op': 'pr_event', 'pr': pr_})
                        hist.apply({'op': 'report_pr', 'pr': pr_,
                                    'state': 'SUCCESSFUL'})
                    hist.apply({'op': 'pr_event', 'pr': pr_})
                    if hist.world.mode != 'noqueue':
                        hist.apply({'op': 'report_queue',
                                    'states': ['SUCCESSFUL']})
                        for q_ in sorted(
                                n_ for n_ in hist.world.heads()
                                if n_.startswith('q/') and
                                not n_.startswith('q/w/')):
                            hist.apply({'op': 'commit_event',
                                        'sel': {'ref': q_}})
                admin_('delete_queues')
                admin_('delete_branch', branch=hb)
                hist.flags.add('c08_hotfix_recycled')
        while len(hist.steps) < n + 40 * placed_jobs and not stop and \
                len(hist.steps) < 400:
            drawn = [pending_delete.pop()] if pending_delete else \
                draw_steps(data, hist, None)
            for step in drawn:
                if step['op'] in ('pr_event', 'commit_event', 'admin') and \
                        placed_jobs < max_jobs:
                    info = hist.dry_run(step)
                    if info and info['pushes']:
                        placed_jobs += 1
                        hist.count('jobs_with_placements')
                        prs = sorted(hist.world.prs)
                        for k in range(len(info['pushes'])):
                            for kind in ACTIONS:
                                act = {'kind': kind}
                                if kind == 'new_branch':
                                    act['name'] = 'feature/third-%d-%d' % (
                                        len(hist.steps), k)
                                else:
                                    if not prs:
                                        continue
                                    pr = step.get('pr') if step.get(
                                        'pr') in prs else prs[
                                        data.draw(st.integers(
                                            0, len(prs) - 1), label='tpr')]
                                    act['pr'] = pr
                                hist.apply({'op': 'placed', 'job': step,
                                            'push': k, 'action': act})
                            if step.get('kind') == 'create_branch':
                                # the same name created by somebody else
                                # right before the job publishes it
                                hist.apply({'op': 'placed', 'job': step,
                                            'push': k, 'action': {
                                                'kind': 'new_branch',
                                                'name': step['args'][
                                                    'branch']}})
                            if step.get('kind') == 'delete_branch':
                                # a racing tag with the archive-tag name
                                ver = step['args']['branch'].split('/')[-1]
                                hist.apply({'op': 'placed', 'job': step,
                                            'push': k, 'action': {
                                                'kind': 'new_tag',
                                                'name': ver}})
                        # the same actions placed before the other commands
                        # that talk to the remote (mirror fetch, remote
                        # update, ls-remote): the clone itself is a window
                        net = [ci for ci, c in enumerate(info['cmds'])
                               if NET_RE.match(c)]
                        if len(net) > max_net:
                            # the commands that refresh what the clone
                            # believes about the remote are always taken
                            core = [ci for ci in net if re.search(
                                r'remote\s+update', info['cmds'][ci])]
                            rest = [ci for ci in net if ci not in core]
                            k = max(0, max_net - len(core))
                            idx = data.draw(st.lists(
                                st.integers(0, len(rest) - 1),
                                min_size=min(k, len(rest)),
                                max_size=min(k, len(rest)),
                                unique=True), label='net') if rest else []
                            net = sorted(core + [rest[i] for i in idx])
                        for ci in net:
                            for kind in ('push_src', 'force_src',
                                         'new_branch'):
                                act = {'kind': kind}
                                if kind == 'new_branch':
                                    act['name'] = 'feature/third-%d-c%d' % (
                                        len(hist.steps), ci)
                                elif prs:
                                    act['pr'] = prs[data.draw(st.integers(
                                        0, len(prs) - 1), label='npr')]
                                else:
                                    continue
                                hist.apply({'op': 'placed', 'job': step,
                                            'cmd': ci, 'action': act})
                        # one command that talks to the remote or to the
                        # mirror cache fails (transient error): Bert-E must
                        # not go on with a stale view of the repository
                        for ci in net:
                            hist.apply({'op': 'cmdfail', 'job': step,
                                        'cmd': ci})
                        # the remote refuses one ref of the job (branch or
                        # tag protection): nothing foreign may be lost either
                        refs_ = sorted(set(info['moved']))
                        if len(refs_) > max_rejects:
                            idx = data.draw(st.lists(
                                st.integers(0, len(refs_) - 1),
                                min_size=max_rejects, max_size=max_rejects,
                                unique=True), label='rej')
                            refs_ = [refs_[i] for i in sorted(idx)]
                        for r in refs_:
                            hist.apply({'op': 'rejected', 'job': step,
                                        'ref': r})
                res_ = hist.apply(step)
                if step['op'] == 'admin':
                    hist.apply({'op': 'drain'})
                if any(sig_key(s) not in known for _, s in hist.violations):
                    stop = True
                    break
                # a destination that Bert-E has just moved is deleted next
                # (the mirror cache is one job behind at that moment)
                moved_ = sorted(set(
                    r[len('refs/heads/'):] for rr in (res_ or [])
                    for tx in rr.txs for a, _, new_, r in tx
                    if a == 'berte' and r.startswith('refs/heads/') and
                    new_ != '0' * 40 and
                    r[len('refs/heads/'):].startswith(
                        ('development/', 'stabilization/', 'hotfix/'))))
                if moved_ and not pending_delete and data.draw(
                        st.integers(0, 1), label='delete_moved'):
                    pending_delete.append({
                        'op': 'admin', 'kind': 'delete_branch',
                        'args': {'branch': moved_[data.draw(st.integers(
                            0, len(moved_) - 1), label='dm')]}})
            if len(hist.steps) >= n and placed_jobs >= max_jobs:
                break
    return body


def nontrivial(h):
    return 'c08_nontrivial' in h.flags


def classes(h):
    return ['mode_' + h.world.mode] + ['flag_' + f for f in sorted(h.flags)]


KNOWN = ()


def shard(ctx, i, acc):
    n = 2 if ctx['tier'] == 'quick' else 6
    explore(ctx, i, acc, monitors, n, nontrivial=nontrivial, classes=classes,
            body=body_factory(ctx['tier'], set(KNOWN)), inject=True,
            known_sigs=set(KNOWN))


def run(ctx):
    return run_shards(__name__, 'shard', ctx, list(range(ctx['nproc'])))


def replay(ctx, case, acc):
    sc = Scratch()
    try:
        viols, _ = replay_case(sc, case, monitors(), inject=True)
        for msg, sig in viols:
            acc.violation(msg, case, sig)
    finally:
        sc.cleanup()
