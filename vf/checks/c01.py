"""C01 forward-port inclusion: histories on real git, chain checked after
every Bert-E ref transaction."""
from vf.cli import run_shards
from vf.sim import monitors as M
from vf.sim.driver import replay_case
from vf.sim.explore import explore
from vf.sim.world import Scratch

LEVEL = 'exploration'
RULE = ('Hypothesis-generated histories (10-30 steps: open PR on any '
        'destination, source push/amend/rebase/reset, reviews, option and '
        'command comments, build reports on live and superseded commits, PR / '
        'commit events, admin jobs, third-party legal destination moves, '
        'fresh instances) over generated cascades (1-4 destinations, '
        'stabilization, major-only, hotfix) x {queue, skipqueue, noqueue} x '
        '{octopus, no_octopus}, executed by the real Bert-E on a real '
        'repository; inclusion chain (computed from names only) checked '
        'after every ref transaction Bert-E makes on a destination and '
        'after every job. Non-trivial = history in which Bert-E moved at '
        'least one destination branch; distinct by hash of (params, steps). '
        'Plus the multi-path queue shapes of corpus/c05_disagreements.json '
        'rebuilt on real git (quick: 64, thorough: all).')
ASSUMPTIONS = ['in-tree mock git host; real git 2.39 on a local bare remote',
               'premise evaluated on the pre-job refs: jobs starting from a '
               'broken chain are counted (c01_premise_false), not judged']


def monitors():
    return [M.C01Chain()]


def nontrivial(h):
    return 'dest_moved' in h.flags


def classes(h):
    out = ['mode_' + h.world.mode]
    if h.world.shape.stabs:
        out.append('has_stabilization')
    if any(d[1] is None for d in h.world.shape.devs):
        out.append('has_major_only')
    if 'no_octopus' in h.world.cmd_line_options:
        out.append('no_octopus')
    if 'dest_moved' in h.flags:
        out.append('dest_moved')
    if 'queue_prelude' in h.flags:
        out.append('queue_prelude')
    if 'backport_prelude' in h.flags:
        out.append('backport_prelude')
    if 'rename_prelude' in h.flags:
        out.append('rename_prelude')
    if 'same_tree_prelude' in h.flags:
        out.append('same_tree_prelude')
    return out


def backport_prelude(data, hist):
    """The same commits reach a newer branch first (work started on an
    older branch, proposed to a newer one) and are then proposed to the
    older branch: the forward-port of the second PR has nothing new to
    bring to the newer branches but their merge commits."""
    from hypothesis import strategies as st
    from vf.sim.world import AUTHOR, PEER1, PEER2
    w = hist.world
    chain = [n for n in w.chain if n in w.heads()]
    if len(chain) < 2:
        return
    i = data.draw(st.integers(0, len(chain) - 2), label='older')
    j = data.draw(st.integers(i + 1, len(chain) - 1), label='newer')

    def merge(pr):
        for u in (PEER1, PEER2, AUTHOR):
            hist.apply({'op': 'approve', 'pr': pr, 'user': u})
        for _ in range(2):
            hist.apply({'op': 'pr_event', 'pr': pr})
            hist.apply({'op': 'report_pr', 'pr': pr, 'state': 'SUCCESSFUL'})
        hist.apply({'op': 'pr_event', 'pr': pr})
        if w.mode != 'noqueue':
            hist.apply({'op': 'report_queue', 'states': ['SUCCESSFUL']})
            qs = sorted(n for n in w.heads() if n.startswith('q/') and
                        not n.startswith('q/w/'))
            if qs:
                hist.apply({'op': 'commit_event', 'sel': {'ref': qs[0]}})
    hist.apply({'op': 'open_pr', 'src': 'bugfix/TEST-1-bp', 'dst': chain[j],
                'author': AUTHOR, 'base_back': 0, 'base_branch': chain[i]})
    if not w.prs:
        return
    a = max(w.prs)
    merge(a)
    hist.apply({'op': 'open_pr', 'src': 'bugfix/TEST-2-bp', 'dst': chain[i],
                'author': AUTHOR, 'same_as': a})
    b = max(w.prs)
    if b != a:
        merge(b)
    hist.flags.add('backport_prelude')


def rename_prelude(data, hist):
    """Two pull requests on the same older destination edit different lines
    of a file that was renamed on the newest branch; the one that forked
    first is merged last (real three-way merges that must follow a rename:
    where octopus and consecutive merges part ways)."""
    from hypothesis import strategies as st
    from vf.sim.world import AUTHOR, AUTHOR2, PEER1, PEER2
    w = hist.world
    chain = [n for n in w.chain if n in w.heads()]
    if len(chain) < 2:
        return
    dst = chain[data.draw(st.integers(0, len(chain) - 2), label='rdst')]
    l1 = data.draw(st.integers(0, 8), label='l1')
    l2 = data.draw(st.integers(11, 19), label='l2')
    hist.apply({'op': 'open_pr', 'src': 'bugfix/TEST-1-rn', 'dst': dst,
                'author': AUTHOR, 'base_back': 0, 'shared': l1})
    hist.apply({'op': 'open_pr', 'src': 'feature/TEST-2-rn', 'dst': dst,
                'author': AUTHOR2, 'base_back': 0, 'shared': l2})
    prs = sorted(w.prs)
    for pr in reversed(prs):
        for u in (PEER1, PEER2, w.prs[pr]['author']):
            hist.apply({'op': 'approve', 'pr': pr, 'user': u})
        for _ in range(2):
            hist.apply({'op': 'pr_event', 'pr': pr})
            hist.apply({'op': 'report_pr', 'pr': pr, 'state': 'SUCCESSFUL'})
        hist.apply({'op': 'pr_event', 'pr': pr})
        if w.mode != 'noqueue':
            hist.apply({'op': 'report_queue', 'states': ['SUCCESSFUL']})
            qs = sorted(n for n in w.heads() if n.startswith('q/') and
                        not n.startswith('q/w/'))
            if qs:
                hist.apply({'op': 'commit_event', 'sel': {'ref': qs[0]}})
        if hist.violations:
            return
    hist.flags.add('rename_prelude')


def same_tree_prelude(data, hist):
    """A development branch is created right above an existing one (the
    create-branch job: same commit, same content), then two pull requests
    forked from the same commit of the lower branch are merged one after
    the other: the second merge is a real merge on the lower branch while
    the next branch receives identical content."""
    import re
    from hypothesis import strategies as st
    from vf.sim.world import AUTHOR, AUTHOR2, PEER1, PEER2
    w = hist.world
    chain = [n for n in w.chain if n in w.heads() and
             re.match(r'development/\d+\.\d+$', n)]
    if not chain:
        return
    dst = chain[data.draw(st.integers(0, len(chain) - 1), label='stdst')]
    major, minor = dst.split('/')[1].split('.')
    new = 'development/%s.%d' % (major, int(minor) + 1)
    if new in w.heads():
        return
    hist.apply({'op': 'admin', 'kind': 'create_branch',
                'args': {'branch': new}})
    hist.apply({'op': 'drain'})
    if new not in w.heads():
        return
    hist.apply({'op': 'open_pr', 'src': 'bugfix/TEST-1-st', 'dst': dst,
                'author': AUTHOR, 'base_back': 0})
    hist.apply({'op': 'open_pr', 'src': 'feature/TEST-2-st', 'dst': dst,
                'author': AUTHOR2, 'base_back': 0})
    from vf.sim.world import ADMIN
    one_step = data.draw(st.integers(0, 2), label='st_one_step') > 0
    for pr in sorted(w.prs):
        for u in (PEER1, PEER2, w.prs[pr]['author']):
            hist.apply({'op': 'approve', 'pr': pr, 'user': u})
        if one_step:
            # everything is ready at the first evaluation: integration
            # branches are created and merged by one job (a second
            # evaluation of such a pull request ends in a spurious
            # BranchHistoryMismatch, see DESIGN 9.2 observations)
            hist.apply({'op': 'comment', 'pr': pr, 'user': ADMIN,
                        'text': '@robot bypass_build_status'})
        for _ in range(2):
            hist.apply({'op': 'pr_event', 'pr': pr})
            hist.apply({'op': 'report_pr', 'pr': pr, 'state': 'SUCCESSFUL'})
        hist.apply({'op': 'pr_event', 'pr': pr})
        if w.mode != 'noqueue':
            hist.apply({'op': 'report_queue', 'states': ['SUCCESSFUL']})
            qs = sorted(n for n in w.heads() if n.startswith('q/') and
                        not n.startswith('q/w/'))
            if qs:
                hist.apply({'op': 'commit_event', 'sel': {'ref': qs[0]}})
        if hist.violations:
            return
    hist.flags.add('same_tree_prelude')


def prelude(data, hist):
    from hypothesis import strategies as st
    if hist.params.get('rename') and data.draw(st.integers(0, 1),
                                               label='rename_prelude'):
        return rename_prelude(data, hist)
    if data.draw(st.integers(0, 3), label='same_tree') == 0:
        return same_tree_prelude(data, hist)
    if data.draw(st.integers(0, 5), label='backport') == 0:
        return backport_prelude(data, hist)
    # uniform histories rarely hold several queued PRs at once: in half of
    # the queue-mode histories start with k PRs queued and a generated
    # status matrix (same prelude as C03)
    from hypothesis import strategies as st
    from vf.checks import c03
    if hist.world.mode != 'noqueue' and data.draw(st.integers(0, 1),
                                                  label='prelude'):
        hist.flags.add('queue_prelude')
        c03.prelude(data, hist)


def shard(ctx, i, acc):
    n = 10 if ctx['tier'] == 'quick' else 120
    explore(ctx, i, acc, monitors, n, nontrivial=nontrivial, classes=classes,
            prelude=prelude, params_kw={'stab_bias': i % 2 == 1})


def any_shard(ctx, job, acc):
    kind, i = job
    if kind == 'corpus':
        # the multi-path queue shapes of corpus/c05_disagreements.json,
        # rebuilt on real git and merged, judged by the chain monitor
        from vf.checks import c03
        c03.corpus_shard(ctx, i, acc, monitors_fn=monitors, per_shard=4,
                         nontrivial_fn=nontrivial)
    else:
        shard(ctx, i, acc)


def run(ctx):
    jobs = [('hist', i) for i in range(ctx['nproc'])] + \
        [('corpus', i) for i in range(ctx['nproc'])]
    return run_shards(__name__, 'any_shard', ctx, jobs)


def replay(ctx, case, acc):
    sc = Scratch()
    try:
        viols, _ = replay_case(sc, case, monitors())
        for msg, sig in viols:
            acc.violation(msg, case, sig)
    finally:
        sc.cleanup()
