"""C13, part W: an accepted webhook / API request is never dropped because of
what was delivered (and evaluated) before it.

The scheduler part of C13 (c13.py) starts where the Flask handlers call
put_job.  This part drives the handlers themselves: generated sequences of
deliveries for a few keys (same commit in several build states, same pull
request, API orders) through the real Flask application, with the real
put_job / process_task between them (BertE.process is a recorder).

Oracle (metamorphic, no table of our own): `solo(D)` is what the delivery D
enqueues on a pristine application.  Inside a history, a delivery answered 2xx
whose solo run enqueues a job J must enqueue a job with J's description,
unless a job with that description is still *waiting* (duplicate suppression);
and after the final drain an evaluation of such a job must have started after
the delivery.  Whatever happened earlier - equal jobs done, other build states
seen for the same commit, caches filled - is no reason to drop it.
"""
import json

from hypothesis import HealthCheck, Phase, given, seed, settings
from hypothesis import strategies as st

from vf.cli import HarnessError, jhash
from vf.checks import c14

SHA_A, SHA_B = c14.SHA_A, c14.SHA_B
SUITE_OK, SUITE_KO, SUITE_RUN = (SHA_A[:-1] + '0', SHA_A[:-1] + 'f',
                                 SHA_A[:-1] + 'e')

# (label, kind, route/path, event header, payload spec | method/body)
BB = [('bb-status-%s-%s-%s' % (st_.lower(), hdr.split('_')[-1], n),
       'hook', '/bitbucket', 'repo:' + hdr, ('bb_status', st_, sha))
      for st_ in ('INPROGRESS', 'SUCCESSFUL', 'FAILED', 'STOPPED')
      for hdr in ('commit_status_created', 'commit_status_updated')
      for n, sha in (('a', SHA_A), ('b', SHA_B))] + [
    ('bb-pr-%s-%d' % (ev, n), 'hook', '/bitbucket', 'pullrequest:' + ev,
     ('bb_pr', n))
    for ev in ('comment_created', 'updated', 'approved') for n in (1, 7)]
GH = [('gh-status-%s-%s' % (st_, n), 'hook', '/github', 'status',
       ('status', st_, sha))
      for st_ in ('pending', 'success', 'failure', 'error')
      for n, sha in (('a', SHA_A), ('b', SHA_B))] + [
    ('gh-suite-%s' % n, 'hook', '/github', 'check_suite',
     ('check_suite', sha))
    for n, sha in (('ok', SUITE_OK), ('ko', SUITE_KO), ('run', SUITE_RUN))
] + [
    ('gh-pr-%s-7' % a, 'hook', '/github', 'pull_request', ('pr_event', a, 7))
    for a in ('opened', 'synchronize', 'closed')] + [
    ('gh-review-7', 'hook', '/github', 'pull_request_review',
     ('review', 'submitted', 7)),
    ('gh-comment-7', 'hook', '/github', 'issue_comment',
     ('issue_comment', 7, True)),
]
API = [
    ('api-eval-pr-7', 'api', '/api/pull-requests/7', 'POST', 'user'),
    ('api-eval-pr-1', 'api', '/api/pull-requests/1', 'POST', 'user'),
    ('api-rebuild-queues', 'api', '/api/gwf/queues', 'POST', 'admin'),
    ('api-delete-queues', 'api', '/api/gwf/queues', 'DELETE', 'admin'),
]
ALPHABET = {'bitbucket': BB + API, 'github': GH + API}
BY_LABEL = {h: {e[0]: e for e in evs} for h, evs in ALPHABET.items()}


def describe(job):
    d = {'cls': type(job).__name__}
    pr = getattr(job, 'pull_request', None)
    if pr is not None:
        d['pr'] = pr.id
    if hasattr(job, 'commit'):
        d['commit'] = job.commit
    kw = getattr(job, 'kwargs', None)
    if kw:
        d['kwargs'] = {k: kw[k] for k in sorted(kw)}
    return d


def dedupable(desc):
    return desc['cls'] in ('PullRequestJob', 'CommitJob')


class Runner:
    def __init__(self, env, host):
        self.env, self.host = env, host
        self.app, self.berte = env.reset(host)
        self.evals = []            # (tick, description)
        self.tick = 0
        self.berte.process = self._process

    def _process(self, job):
        self.tick += 1
        self.evals.append((self.tick, describe(job)))

    def deliver(self, label):
        ev = BY_LABEL[self.host][label]
        berte = self.berte
        before = list(berte.task_queue.queue)
        if ev[1] == 'hook':
            headers = {'Authorization': c14.CREDS_BY_LABEL['right'][1],
                       'Content-Type': c14.JSON_CT,
                       ('X-Event-Key' if ev[2] == '/bitbucket'
                        else 'X-Github-Event'): ev[3]}
            c = self.env.client(self.host, 'none')
            resp = c.open(ev[2], method='POST', headers=headers,
                          data=c14.build_payload(ev[4], 'match'))
        else:
            c = self.env.client(self.host, ev[4])
            resp = c.open(ev[2], method=ev[3], data=b'{}', headers={
                'Content-Type': c14.JSON_CT, 'Accept': c14.JSON_CT})
        self.tick += 1
        after = list(berte.task_queue.queue)
        new = [j for j in after if not any(j is b for b in before)]
        gone = [b for b in before if not any(b is j for j in after)]
        return {'status': resp.status_code, 'tick': self.tick,
                'new': [describe(j) for j in new],
                'waiting_before': [describe(b) for b in before],
                'lost_waiting': [describe(b) for b in gone]}

    def drain(self):
        n = 0
        while self.berte.task_queue.qsize():
            self.berte.process_task()
            n += 1
            if n > 100:
                raise HarnessError('drain does not terminate')
        if self.berte.status.get('current job') is not None:
            raise HarnessError('current job marker left after a drain')
        return n


_SOLO = {}


def solo(env, host, label):
    k = (host, label)
    if k not in _SOLO:
        r = Runner(env, host)
        obs = r.deliver(label)
        if len(obs['new']) > 1:
            raise HarnessError('one delivery enqueued %d jobs: %s'
                               % (len(obs['new']), label))
        _SOLO[k] = (obs['status'], obs['new'][0] if obs['new'] else None)
    return _SOLO[k]


def run_history(env, host, steps):
    """-> (violations [(msg, sig)], info)"""
    want = {lab: solo(env, host, lab) for lab in steps if lab != 'drain'}
    r = Runner(env, host)
    viols = []
    owed = []      # (tick of acceptance, description, label, index)
    info = {'redelivered_after_done': 0, 'suppressed_while_waiting': 0,
            'accepted': 0, 'state_change_same_key': 0}
    done_desc = []
    seen_keys = {}
    for i, lab in enumerate(steps):
        if lab == 'drain':
            r.drain()
            done_desc = [d for _, d in r.evals]
            continue
        s_status, s_job = want[lab]
        obs = r.deliver(lab)
        if obs['lost_waiting']:
            viols.append((
                'C13: delivery %s (step %d) removed waiting job(s) %r from '
                'the queue' % (lab, i, obs['lost_waiting']),
                {'part': 'hooks', 'clause': 'waiting_job_removed',
                 'host': host}))
        if not (200 <= obs['status'] < 300) or s_job is None:
            continue
        info['accepted'] += 1
        if s_job in done_desc:
            info['redelivered_after_done'] += 1
        key = json.dumps({k: v for k, v in s_job.items()}, sort_keys=True)
        if key in seen_keys and seen_keys[key] != lab:
            info['state_change_same_key'] += 1
        seen_keys[key] = lab
        if s_job in obs['new']:
            owed.append((obs['tick'], s_job, lab, i))
            continue
        if dedupable(s_job) and s_job in obs['waiting_before']:
            info['suppressed_while_waiting'] += 1
            owed.append((obs['tick'], s_job, lab, i))
            continue
        viols.append((
            'C13: %s delivery %s (step %d of %r) was answered %d but no job '
            'was enqueued and no equal job was waiting; delivered alone it '
            'enqueues %r' % (host, lab, i, steps, obs['status'], s_job),
            {'part': 'hooks', 'clause': 'accepted_event_dropped',
             'host': host, 'event': '-'.join(lab.split('-')[:2])}))
    r.drain()
    for tick, desc, lab, i in owed:
        if not any(t > tick and d == desc for t, d in r.evals):
            viols.append((
                'C13: no evaluation of %r started after delivery %s (step '
                '%d of %r) was accepted' % (desc, lab, i, steps),
                {'part': 'hooks', 'clause': 'no_evaluation_after_accept',
                 'host': host}))
    if len(r.berte.tasks_done) - 1 != len(r.evals):
        viols.append((
            'C13: %d evaluations but %d jobs recorded as finished'
            % (len(r.evals), len(r.berte.tasks_done) - 1),
            {'part': 'hooks', 'clause': 'finished_jobs_record',
             'host': host}))
    return viols, info


def key_of(ev):
    if ev[1] == 'api':
        return ev[2]
    spec = ev[4]
    kind = spec[0]
    if kind in ('bb_status', 'status'):
        return spec[2]
    if kind == 'check_suite':
        return spec[1]
    if kind in ('bb_pr', 'issue_comment'):
        return ('pr', spec[1])
    return ('pr', spec[2])


def directed(host):
    """Every (first, second) pair of deliveries on one key with a drain in
    between, and without: the second one is the delivery under test."""
    evs = ALPHABET[host]
    out = []
    for a in evs:
        for b in evs:
            if key_of(a) == key_of(b):
                out.append([a[0], 'drain', b[0]])
                out.append([a[0], b[0]])
    return out


def judge(env, host, steps, acc, found):
    viols, info = run_history(env, host, steps)
    nt = info['redelivered_after_done'] > 0 or \
        info['state_change_same_key'] > 0
    case = {'part': 'hooks', 'host': host, 'steps': list(steps)}
    acc.case(jhash(['hooks', host, list(steps)]), nt, sample=case,
             classes=['hooks_histories', 'hooks_' + host] + [
                 'hooks_' + k for k, v in info.items() if v])
    acc.cls('hooks_accepted_deliveries', info['accepted'])
    acc.cls('hooks_redeliveries_after_done', info['redelivered_after_done'])
    for msg, sig in viols:
        k = json.dumps(sig, sort_keys=True)
        if k not in found or len(found[k][1]['steps']) > len(steps):
            found[k] = (msg, case, sig)


def shard_fn(ctx, shard, acc):
    i, n, per = shard
    env = c14.Env()
    found = {}
    try:
        for host in ('bitbucket', 'github'):
            d = directed(host)
            for k in range(i, len(d), n):
                judge(env, host, d[k], acc, found)
                acc.cls('hooks_directed_pairs')

        @seed(ctx['seed'] * 1000 + 700 + i)
        @settings(max_examples=per, database=None, deadline=None,
                  suppress_health_check=list(HealthCheck),
                  phases=[Phase.generate])
        @given(st.data())
        def go(data):
            host = data.draw(st.sampled_from(['bitbucket', 'github']))
            labels = [e[0] for e in ALPHABET[host]]
            steps = data.draw(st.lists(
                st.one_of(st.sampled_from(labels), st.just('drain'),
                          st.sampled_from(labels)),
                min_size=2, max_size=9))
            judge(env, host, steps, acc, found)
        go()
    finally:
        env.close()
    for msg, case, sig in found.values():
        acc.violation(msg, case, sig)


def replay(ctx, case, acc):
    env = c14.Env()
    try:
        viols, _ = run_history(env, case['host'], case['steps'])
        for msg, sig in viols:
            acc.violation(msg, case, sig)
    finally:
        env.close()
