"""C16: the robot's credentials never leak into logs, comments, job reports
or standard output — fault enumeration with a taint sentinel."""
import hashlib
import io
import json
import logging
import os
import re
import shlex
import subprocess as real_subprocess
import tempfile
from urllib.parse import quote, quote_plus

from hypothesis import HealthCheck, Phase, given, seed, settings
from hypothesis import strategies as st

from vf.cli import run_shards, jhash
from vf.sim.driver import History, is_dest
from vf.sim.world import Scratch, AUTHOR, PEER1, ADMIN

LEVEL = 'fault_enumeration'
RULE = ('Part A (git): the robot password is a Hypothesis-generated sentinel '
        'over URL-special, shell-special and non-ASCII characters; the mock '
        'host\'s clone URL is made credentialed exactly as the GitHub and '
        'Bitbucket classes build it and mapped to the scratch remote with '
        'url.<path>.insteadOf, so every git command line is the production '
        'one. For a fixed set of representative jobs (first PR evaluation, '
        'evaluation that queues, queue merge, direct merge, create-branch, '
        'delete-branch, rebuild / delete / force-merge queues, reset) the '
        'git commands are counted in a dry run; then the job is re-executed '
        'from the same snapshot once per (command, fault in {exit 128 '
        'printing `fatal: unable to access \'<credentialed URL>\'`, hang '
        'until the timeout}) at DEBUG and at INFO level (quick tier: one '
        'command per distinct command template; thorough: every command '
        'index in the first history of each shard, one per template in '
        'the two others). Part B (GitHub): password and GitHub-App authentication '
        'flows of the real github client against a scripted '
        'requests.Session, every endpoint answered 200/401/403/404/500/429/502 in '
        'turn. Sinks searched for the sentinel in raw, quote_plus and quote '
        'form (and for the app JWT / installation token): every log record '
        'formatted with its exception chain, stdout/stderr captured at fd '
        'level, job.status, job.details, job.as_json(), get_jobs_as_json(), '
        'every comment body, str() and repr() of every exception up the '
        '__cause__/__context__ chain. Non-trivial = a faulted run whose '
        'command line or injected output contained the secret; distinct by '
        '(job kind, command template, fault, log level, password).')
ASSUMPTIONS = ['a transformation of the secret other than raw / quote_plus / '
               'quote would go unseen', 'in-tree mock host for the git part; '
               'scripted HTTP session for the GitHub part']

ALPHABET = 'aZ9@:/?&=+ %#$\'"!*();|<>\\é€`~,.-_'
HOST_URL = 'githost.invalid'


def forms(secret):
    out = {secret, quote_plus(secret), quote(secret), quote(secret, safe='')}
    return [f for f in out if len(f) >= 6]


class Capture(logging.Handler):
    def __init__(self):
        super().__init__(level=logging.DEBUG)
        self.records = []
        self.fmt = logging.Formatter('%(name)s %(levelname)s %(message)s')

    def emit(self, record):
        try:
            text = self.fmt.format(record)   # includes the exception chain
        except Exception as e:               # formatting errors are findings
            text = 'FORMAT-ERROR %r' % e
        self.records.append(text)
        if record.exc_info and record.exc_info[1] is not None:
            e = record.exc_info[1]
            seen = 0
            while e is not None and seen < 10:
                seen += 1
                for f in (str, repr):
                    try:
                        self.records.append('EXC %s' % f(e))
                    except Exception:
                        pass
                for a in getattr(e, 'args', ()):
                    self.records.append('EXCARG %r' % (a,))
                for attr in ('cmd', 'output', 'stderr', 'stdout'):
                    if hasattr(e, attr):
                        self.records.append('EXCATTR %r' % (getattr(e, attr),))
                # as tracebacks are displayed: `raise ... from None`
                # suppresses the context
                e = e.__cause__ or (None if e.__suppress_context__
                                    else e.__context__)


class FdCapture:
    """Capture fd 1 and 2 (what a real process would print)."""
    def __enter__(self):
        self.tmp = tempfile.TemporaryFile()
        import sys
        sys.stdout.flush()
        sys.stderr.flush()
        self.saved = (os.dup(1), os.dup(2))
        os.dup2(self.tmp.fileno(), 1)
        os.dup2(self.tmp.fileno(), 2)
        return self

    def __exit__(self, *a):
        import sys
        sys.stdout.flush()
        sys.stderr.flush()
        os.dup2(self.saved[0], 1)
        os.dup2(self.saved[1], 2)
        os.close(self.saved[0])
        os.close(self.saved[1])
        self.tmp.seek(0)
        self.text = self.tmp.read().decode('utf-8', 'replace')
        self.tmp.close()


def template_of(cmdline, url):
    """Normal form of a git command line (for 'one per template')."""
    has_url = url in cmdline
    words = cmdline.replace(url, 'URL').split()
    head = ' '.join(words[:3 if words[:2] == ['git', 'remote'] else 2])
    flags = ' '.join(w for w in words[2:] if w.startswith('--'))[:40]
    return '%s %s%s' % (head, flags, ' URL' if has_url else '')


class HangPopen(real_subprocess.Popen):
    """A process that never answers: communicate() times out at once."""
    def communicate(self, input=None, timeout=None):
        if timeout is not None and not getattr(self, '_vf_timed_out', False):
            self._vf_timed_out = True
            raise real_subprocess.TimeoutExpired(self.args, timeout)
        return super().communicate(input)


def fail_builder(kind, url):
    def build(command, kw):
        if kind == 'fail':
            msg = "fatal: unable to access '%s/': The requested URL " \
                  "returned error: 403" % url
            script = 'printf "%%s\\n" %s; printf "%%s\\n" %s >&2; exit 128' \
                % (shlex.quote(msg), shlex.quote('remote: ' + msg))
            return real_subprocess.Popen(script, **kw)
        # hang: the original command line is kept as proc.args, as for a
        # real hanging git command; the process prints the credentialed
        # URL (as git does before it stalls) and then sleeps
        msg = "fatal: unable to access '%s/': Operation timed out" % url
        p = HangPopen('printf "%%s\\n" %s; printf "%%s\\n" %s >&2; '
                      'exec sleep 30' % (shlex.quote(msg),
                                         shlex.quote('remote: ' + msg)),
                      **kw)
        p.args = command
        return p
    return build


def install_credentialed_url(world, password):
    """Production-shaped clone URL for the mock repository."""
    mock = world.mock
    url = 'https://%s:%s@%s/own/slug.git' % (quote_plus('robot'),
                                            quote_plus(password), HOST_URL)
    with open(os.path.join(world.home, '.gitconfig'), 'a') as f:
        f.write('[url "%s"]\n\tinsteadOf = %s\n' % (world.remote, url))
    orig = mock.Repository.get_git_url

    def get_git_url(self):
        self.gitrepo = mock.Repository.repos[(self.repo_owner,
                                              self.repo_slug)]
        if self.client.login == 'robot':
            return url
        return self.gitrepo.tmp_directory
    mock.Repository.get_git_url = get_git_url
    mock.Repository.git_url = property(get_git_url)
    return url, orig


def restore_url(world, orig):
    mock = world.mock
    mock.Repository.get_git_url = orig
    mock.Repository.git_url = property(lambda self: self.get_git_url())


SCENARIO = [
    # (label, steps before, job step)
    ('pr_first_eval', [
        {'op': 'open_pr', 'src': 'bugfix/TEST-1-a', 'dst': '@first',
         'author': AUTHOR, 'base_back': 0}],
     {'op': 'pr_event', 'pr': 1}),
    ('pr_queue_or_merge', [
        {'op': 'pr_event', 'pr': 1},
        {'op': 'approve', 'pr': 1, 'user': PEER1},
        {'op': 'report_pr', 'pr': 1, 'state': 'SUCCESSFUL'}],
     {'op': 'pr_event', 'pr': 1}),
    ('queue_merge', [
        {'op': 'pr_event', 'pr': 1},
        {'op': 'report_queue', 'states': ['SUCCESSFUL']}],
     {'op': 'commit_event', 'sel': {'ref': '@q'}}),
    ('reset', [
        {'op': 'open_pr', 'src': 'feature/TEST-2-b', 'dst': '@first',
         'author': AUTHOR, 'base_back': 0},
        {'op': 'pr_event', 'pr': '@last'},
        {'op': 'comment', 'pr': '@last', 'user': AUTHOR,
         'text': '@robot reset'}],
     {'op': 'pr_event', 'pr': '@last'}),
    ('create_branch', [],
     {'op': 'admin', 'kind': 'create_branch',
      'args': {'branch': 'development/11.0'}}),
    ('rebuild_queues', [], {'op': 'admin', 'kind': 'rebuild_queues'}),
    ('force_merge_queues', [], {'op': 'admin',
                                'kind': 'force_merge_queues'}),
    ('delete_queues', [], {'op': 'admin', 'kind': 'delete_queues'}),
    ('delete_branch', [],
     {'op': 'admin', 'kind': 'delete_branch',
      'args': {'branch': '@lastdest'}}),
]


def resolve(hist, step):
    w = hist.world
    s = json.loads(json.dumps(step))
    dests = sorted(n for n in w.heads() if is_dest(n) and
                   not n.startswith('hotfix/'))
    if s.get('dst') == '@first':
        s['dst'] = w.chain[0]
    if s.get('pr') == '@last':
        s['pr'] = max(w.prs) if w.prs else 1
    if s.get('sel', {}).get('ref') == '@q':
        qs = sorted(n for n in w.heads() if n.startswith('q/') and
                    not n.startswith('q/w/'))
        s['sel'] = {'ref': qs[0] if qs else w.chain[0]}
    if s.get('args', {}).get('branch') == '@lastdest':
        s['args']['branch'] = dests[-1] if dests else 'development/9.9'
    return s


def scan(sinks, secrets):
    hits = []
    for name, text in sinks:
        if not isinstance(text, str):
            text = repr(text)
        for s in secrets:
            if s in text:
                i = text.index(s)
                hits.append((name, text[max(0, i - 60):i + len(s) + 20]))
                break
    return hits


def run_faulted(hist, js, cidx, kind, level, url, secrets):
    """Run job js from the current state with command cidx failing; return
    (sinks, hits).  The caller restores the world."""
    w = hist.world
    inj = hist.injector
    cap = Capture()
    root = logging.getLogger()
    old_level = root.level
    root.addHandler(cap)
    root.setLevel(level)
    inj.reset_plan()
    if cidx is not None:
        inj.fail_cmd = (cidx, fail_builder(kind, url))
    try:
        with FdCapture() as fd:
            job = hist.job_from(js)
            if job is None:
                return [], []
            res = w.run_job(job)
            try:
                jobs_json = w.berte.get_jobs_as_json()
            except Exception as e:
                # e.g. CreateBranchJob stores a branch object in its
                # settings: not JSON serializable (robustness, not C16)
                jobs_json = 'get_jobs_as_json failed: %r' % e
            try:
                job_json = job.as_json()
            except Exception as e:
                job_json = 'as_json failed: %r' % e
    finally:
        root.removeHandler(cap)
        root.setLevel(old_level)
        inj.reset_plan()
    sinks = [('log', r) for r in cap.records]
    sinks.append(('stdout/stderr', fd.text))
    sinks.append(('job.status', str(res.status)))
    sinks.append(('job.details', str(res.details)))
    sinks.append(('job.as_json', job_json))
    sinks.append(('get_jobs_as_json', jobs_json))
    if res.error is not None:
        sinks.append(('worker exception', repr(res.error)))
    for pid, comments in res.host1['comments'].items():
        for a, t in comments:
            sinks.append(('comment on PR #%d' % pid, t))
    return sinks, scan(sinks, secrets)


def git_part(ctx, shard, acc):
    tier = ctx['tier']
    scratch = Scratch()
    found = {}
    nonlocal_counter = [0]

    @seed(ctx['seed'] * 1000 + shard)
    @settings(max_examples=1 if tier == 'quick' else 3, database=None,
              deadline=None, derandomize=False, report_multiple_bugs=False,
              suppress_health_check=list(HealthCheck),
              phases=[Phase.generate])
    @given(st.data())
    def run(data):
        # the first Hypothesis example is the simplest one ('0000...');
        # with one history per shard the sentinel is instead derived from
        # (VERIF_SEED, shard, example) so that it always mixes URL-special,
        # shell-special and non-ASCII characters; Hypothesis adds a suffix.
        nonlocal_counter[0] += 1
        h = hashlib.sha1(('%d|%d|%d' % (ctx['seed'], shard,
                                        nonlocal_counter[0])).encode())
        base = ''.join(ALPHABET[b % len(ALPHABET)] for b in h.digest()[:12])
        suffix = data.draw(st.text(alphabet=ALPHABET, max_size=4),
                           label='password_suffix')
        password = 'S3' + base + suffix + 'x!'
        mode = data.draw(st.sampled_from(['queue', 'queue', 'skipqueue',
                                          'noqueue']), label='mode')
        params = {'devs': [[4, 3], [5, 1], [10, 0]], 'stabs': [],
                  'hotfix': 'none', 'mode': mode, 'settings': {},
                  'options': []}
        secrets = forms(password)
        hist = History(scratch, params, [], inject=True)
        w = hist.world
        w.password = password
        url, orig = install_credentialed_url(w, password)
        try:
            w.new_berte()
            # each shard takes a slice of the scenario
            for si, (label, pre, jobstep) in enumerate(SCENARIO):
                for s in pre:
                    hist.apply(resolve(hist, s))
                js = resolve(hist, jobstep)
                if si != shard % len(SCENARIO):
                    hist.apply(js)
                    if js['op'] == 'admin':
                        hist.apply({'op': 'drain'})
                    continue
                info = hist.dry_run(js)
                if not info:
                    continue
                cmds = info['cmds']
                chosen = []
                seen_t = set()
                for ci, c in enumerate(cmds):
                    t = template_of(c, url)
                    # thorough: every command of the job in the first
                    # history of the shard, one per template afterwards
                    if (tier == 'thorough' and nonlocal_counter[0] == 1) \
                            or t not in seen_t:
                        seen_t.add(t)
                        chosen.append((ci, t))
                acc.cls('git_jobs_faulted')
                acc.cls('git_commands_seen', len(cmds))
                levels = [logging.DEBUG, logging.INFO]
                for ci, t in chosen:
                    for kind in ('fail', 'hang'):
                        for level in levels:
                            def go():
                                return run_faulted(hist, js, ci, kind,
                                                   level, url, secrets)
                            sinks, hits = hist.on_snapshot(go)
                            key = (label, t, kind, level)
                            tainted = any(s in cmds[ci] for s in secrets) \
                                or kind == 'fail'
                            case = {'part': 'git', 'password': password,
                                    'mode': mode, 'scenario': label,
                                    'command_index': ci, 'template': t,
                                    'fault': kind, 'level': level}
                            acc.case(jhash(key + (password,)), tainted,
                                     sample=case,
                                     classes=['git_fault_' + kind,
                                              'git_level_%d' % level])
                            for sink, ctxt in hits:
                                sig = {'part': 'git', 'sink': sink.split(
                                    ' on PR')[0], 'fault': kind}
                                k = json.dumps(sig, sort_keys=True)
                                msg = ('C16: secret found in %s after %s of '
                                       '`%s` (job %s, level %s): ...%s...'
                                       % (sink, kind, t, label,
                                          logging.getLevelName(level), ctxt))
                                if k not in found:
                                    found[k] = (msg, case, sig)
                # fault-free run at both levels too
                for level in levels:
                    sinks, hits = hist.on_snapshot(
                        lambda: run_faulted(hist, js, None, None, level, url,
                                            secrets))
                    acc.case(jhash((label, 'nofault', level, password)),
                             False, classes=['git_no_fault'])
                    for sink, ctxt in hits:
                        sig = {'part': 'git', 'sink': sink.split(' on PR')[0],
                               'fault': 'none'}
                        k = json.dumps(sig, sort_keys=True)
                        if k not in found:
                            found[k] = (
                                'C16: secret found in %s without any fault '
                                '(job %s, level %s): ...%s...' %
                                (sink, label, logging.getLevelName(level),
                                 ctxt),
                                {'part': 'git', 'password': password,
                                 'mode': mode, 'scenario': label,
                                 'command_index': None, 'template': None,
                                 'fault': None, 'level': level}, sig)
                hist.apply(js)
                if js['op'] == 'admin':
                    hist.apply({'op': 'drain'})
        finally:
            restore_url(w, orig)
            hist.close()
    try:
        run()
        for k, (msg, case, sig) in sorted(found.items()):
            acc.violation(msg, case, sig)
    finally:
        scratch.cleanup()


# ----------------------------------------------------------------------
# Part B: GitHub client flows over a scripted session

def github_part(ctx, shard, acc):
    from vf.checks import c16_github
    c16_github.run_shard(ctx, shard, acc)


def shard_fn(ctx, shard, acc):
    kind, i = shard
    if kind == 'git':
        git_part(ctx, i, acc)
    else:
        github_part(ctx, i, acc)


def run(ctx):
    n = ctx['nproc']
    shards = [('git', i) for i in range(max(1, n - 2))] + \
        [('github', i) for i in range(2)]
    return run_shards(__name__, 'shard_fn', ctx, shards)


def replay(ctx, case, acc):
    if case.get('part') == 'github':
        from vf.checks import c16_github
        return c16_github.replay(ctx, case, acc)
    scratch = Scratch()
    try:
        params = {'devs': [[4, 3], [5, 1], [10, 0]], 'stabs': [],
                  'hotfix': 'none', 'mode': case['mode'], 'settings': {},
                  'options': []}
        password = case['password']
        secrets = forms(password)
        hist = History(scratch, params, [], inject=True)
        w = hist.world
        w.password = password
        url, orig = install_credentialed_url(w, password)
        try:
            w.new_berte()
            for label, pre, jobstep in SCENARIO:
                for s in pre:
                    hist.apply(resolve(hist, s))
                js = resolve(hist, jobstep)
                if label == case['scenario']:
                    sinks, hits = hist.on_snapshot(
                        lambda: run_faulted(hist, js, case['command_index'],
                                            case['fault'], case['level'],
                                            url, secrets))
                    for sink, ctxt in hits:
                        acc.violation(
                            'C16: secret found in %s: ...%s...' % (sink,
                                                                  ctxt),
                            case, {'part': 'git',
                                   'sink': sink.split(' on PR')[0],
                                   'fault': case['fault'] or 'none'})
                    return
                hist.apply(js)
                if js['op'] == 'admin':
                    hist.apply({'op': 'drain'})
        finally:
            restore_url(w, orig)
            hist.close()
    finally:
        scratch.cleanup()
