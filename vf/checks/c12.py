"""C12: held-back, finished and foreign pull requests are left alone."""
from hypothesis import strategies as st

from vf.cli import run_shards
from vf.sim import monitors as M
from vf.sim.driver import replay_case, PREFIXES, is_dest
from vf.sim.explore import explore
from vf.sim.world import Scratch, AUTHOR, AUTHOR2, PEER1, PEER2, ADMIN, ROBOT

LEVEL = 'exploration'
RULE = ('Two generated scenario families on real Bert-E + real git. (a) A '
        'fully approved, green pull request P meets a hold: `wait` (both '
        'comment syntaxes) or after_pull_request on an open / declined / '
        'merged / unknown / non-numeric id or on two ids; the hold is added '
        'before the first evaluation, after the integration branches exist, '
        'or after P is green; while it is present 2-5 generated evaluations '
        '(PR event, commit events on source and w/ tips, re-reports, '
        'approvals) run; then the hold is lifted (comment deleted or '
        'dependency merged) and P is evaluated. Oracle: while held (and not '
        'already queued) no ref-journal entry creates or updates '
        'w/*/<P source> or q/w/<P>/*, and P is not merged; after the lift the '
        'job status and the ref shape (branch names + tree ids) equal those '
        'of a probe run from the pre-hold snapshot that never had the hold. '
        '(b) Foreign pull requests (source user/*, legacy hotfix/*, '
        'unrecognised; destination not development/stabilization/hotfix) '
        'approved and green: evaluations leave host state and refs untouched. '
        'Non-trivial = a held evaluation of an otherwise mergeable PR, or a '
        'foreign evaluation; distinct by hash of (params, steps).')
ASSUMPTIONS = ['a hold added after P entered the queue is a statistic only '
               '(the queue merge does not re-read PR comments; the statement '
               'is read as: nothing new is done for P while held)',
               'non-numeric after_pull_request is EITHER (ignored on purpose)']

FOREIGN = (
    ('user/joe/thing', None), ('hotfix/urgent-thing', None),
    ('master-copy', None), ('fix_something', None), ('user/x', None),
    # names of the robot's own namespaces and release branches proposed by
    # a human: not pull requests Bert-E handles either
    ('w/10.0/feature/TEST-9-x', None), ('release/5.1', None),
    ('w/5.1/bugfix/TEST-8-y', None),
    (None, 'feature/integration-target'), (None, 'release/5.1'),
    (None, 'user/joe/base'), (None, 'trunk'),
)


def monitors():
    return [M.C12Hold(), M.C12Foreign()]


def approve_all(hist, pr):
    w = hist.world
    for u in (PEER1, PEER2)[:int(w.settings_dict.get(
            'required_peer_approvals', 1))]:
        hist.apply({'op': 'approve', 'pr': pr, 'user': u})
    hist.apply({'op': 'approve', 'pr': pr, 'user': w.prs[pr]['author']})


def merge_steps(hist, pr):
    """Steps that merge PR `pr` in the current mode."""
    steps = [{'op': 'report_pr', 'pr': pr, 'state': 'SUCCESSFUL'},
             {'op': 'pr_event', 'pr': pr},
             {'op': 'report_pr', 'pr': pr, 'state': 'SUCCESSFUL'},
             {'op': 'pr_event', 'pr': pr}]
    if hist.world.mode != 'noqueue':
        steps += [{'op': 'report_queue', 'states': ['SUCCESSFUL']},
                  {'op': 'commit_event', 'sel': {'ref': 'q/' + hist.world.prs[
                      pr]['dst'].split('/')[1]}}]
    return steps


def body(data, hist):
    w = hist.world

    def pick(seq, label):
        return seq[data.draw(st.integers(0, len(seq) - 1), label=label)]
    dests = sorted(n for n in w.heads() if is_dest(n) and
                   not n.startswith('hotfix/'))
    if data.draw(st.integers(0, 3), label='family') == 0:
        # ---- (b) foreign pull requests --------------------------------
        k = data.draw(st.integers(1, 4), label='nforeign')
        for i in range(k):
            src, dst = pick(FOREIGN, 'pair')
            create_dst = dst is not None
            src = src or 'feature/TEST-%d-ok%d' % (i + 1, i + 1)
            dst = dst or pick(dests, 'fdst')
            src = '%s%d' % (src, i)
            hist.apply({'op': 'open_foreign', 'src': src, 'dst': dst,
                        'create_dst': create_dst})
            pr = max(w.prs)
            approve_all(hist, pr)
            hist.apply({'op': 'report', 'sel': {'ref': src},
                        'state': 'SUCCESSFUL'})
            hist.apply({'op': 'pr_event', 'pr': pr})
            if data.draw(st.integers(0, 1), label='ce'):
                hist.apply({'op': 'commit_event', 'sel': {'ref': src}})
            hist.apply({'op': 'comment', 'pr': pr, 'user': AUTHOR,
                        'text': '@robot approve'})
            hist.apply({'op': 'pr_event', 'pr': pr})
        return
    # ---- (a) holds ------------------------------------------------------
    dstP = pick(dests, 'dstP')
    hist.apply({'op': 'open_pr', 'src': 'bugfix/TEST-1-p', 'dst': dstP,
                'author': AUTHOR, 'base_back': 0})
    P = max(w.prs)
    kind = pick(('wait', 'wait_slash', 'dep_open', 'dep_open', 'dep_declined',
                 'dep_merged', 'dep_unknown', 'dep_nonnumeric', 'dep_two',
                 'dep_two', 'dep_two_one_comment', 'dep_merged_then_open',
                 'dep_partial', 'dep_partial', 'dep_partial'),
                'hold')
    partial = kind == 'dep_partial'
    if partial:
        # the dependency goes through the queue, but its author pushed one
        # more commit after it was queued: the queue merge leaves it OPEN
        # (partially merged) - still a dependency that is not merged
        kind = 'dep_open'
    deps = []
    if kind.startswith('dep_') and kind not in ('dep_unknown',
                                                'dep_nonnumeric'):
        for i in range(2 if kind in ('dep_two', 'dep_two_one_comment',
                                     'dep_merged_then_open') else 1):
            hist.apply({'op': 'open_pr', 'src': 'feature/TEST-%d-d' % (i + 2),
                        'dst': pick(dests, 'dstD'), 'author': AUTHOR2,
                        'base_back': 0})
            D = max(w.prs)
            deps.append(D)
            approve_all(hist, D)
            if kind == 'dep_declined':
                hist.apply({'op': 'decline', 'pr': D, 'user': AUTHOR2})
            elif partial and w.mode != 'noqueue':
                ms = merge_steps(hist, D)
                for s in ms[:4]:
                    hist.apply(s)
                hist.apply({'op': 'push_src', 'pr': D, 'kind': 'add'})
                for s in ms[4:]:
                    hist.apply(s)
                hist.flags.add('c12_dependency_partially_merged')
            elif kind == 'dep_merged' or (kind == 'dep_merged_then_open'
                                          and i == 1):
                # (dep_merged_then_open: the LAST listed dependency is
                # already merged, the first one is still open)
                for s in merge_steps(hist, D):
                    hist.apply(s)
    pos = pick(('before_first_eval', 'after_w', 'after_green'), 'pos')
    approve_all(hist, P)
    if pos in ('after_w', 'after_green'):
        hist.apply({'op': 'pr_event', 'pr': P})
    if pos == 'after_green':
        hist.apply({'op': 'report_pr', 'pr': P, 'state': 'SUCCESSFUL'})
    # hold comments
    if kind == 'wait':
        texts = ['@robot wait']
    elif kind == 'wait_slash':
        texts = ['/wait']
    elif kind == 'dep_unknown':
        texts = ['@robot after_pull_request=99']
    elif kind == 'dep_nonnumeric':
        texts = ['@robot after_pull_request=abc']
    elif kind in ('dep_two_one_comment', 'dep_merged_then_open'):
        # the documented form: several dependencies in a single comment
        texts = ['@robot ' + ' '.join('after_pull_request=%d' % d
                                      for d in deps)]
    else:
        texts = ['@robot after_pull_request=%d' % d for d in deps]
    # lift steps (without the comment deletion) for the probe path
    lift = []
    liftable = True
    if kind in ('dep_open', 'dep_two', 'dep_two_one_comment'):
        for d in deps:
            lift += merge_steps(hist, d)
    elif kind == 'dep_merged_then_open':
        lift += merge_steps(hist, deps[0])
    # two full report+evaluate rounds in both worlds, so that both reach the
    # same point (first round may only create the integration branches)
    rnd = [{'op': 'report_pr', 'pr': P, 'state': 'SUCCESSFUL'},
           {'op': 'pr_event', 'pr': P}]
    # (the never-held twin restarts the robot when its snapshot is restored;
    # the partially-merged-dependency variant is about what a long-lived
    # instance remembers, so it is judged by the hold monitor alone)
    long_lived = 'c12_dependency_partially_merged' in hist.flags
    if not long_lived:
        hist.apply({'op': 'probe_path', 'slot': 'never_held', 'pr': P,
                    'steps': lift + rnd + rnd + rnd})
    # the hold is a property of the pull request, whoever wrote the comment
    holder = pick((AUTHOR, AUTHOR, PEER1, ADMIN, ROBOT, ROBOT), 'holder')
    hist.flags.add('c12_hold_by_' + ('robot_account' if holder == ROBOT
                                     else 'a_person'))
    for t in texts:
        hist.apply({'op': 'comment', 'pr': P, 'user': holder, 'text': t})
    n = data.draw(st.integers(2, 5), label='nheld')
    for it_ in range(n):
        k = data.draw(st.integers(0, 5), label='held_op')
        if long_lived:
            # green builds and evaluations on the same long-lived instance
            # (no restart: what the instance remembers is the point)
            k = 4 if it_ < 2 or k == 5 else k
        if k <= 1:
            hist.apply({'op': 'pr_event', 'pr': P})
        elif k == 2:
            hist.apply({'op': 'commit_event',
                        'sel': {'ref': w.prs[P]['src']}})
        elif k == 3:
            ws = sorted(x for x in w.heads() if x.startswith('w/') and
                        x.split('/', 2)[2] == w.prs[P]['src'])
            if ws:
                hist.apply({'op': 'commit_event', 'sel': {'ref': pick(
                    ws, 'wref')}})
            else:
                hist.apply({'op': 'pr_event', 'pr': P})
        elif k == 4:
            hist.apply({'op': 'report_pr', 'pr': P, 'state': 'SUCCESSFUL'})
            hist.apply({'op': 'pr_event', 'pr': P})
        else:
            hist.apply({'op': 'fresh'})
            hist.apply({'op': 'pr_event', 'pr': P})
        if hist.violations:
            return
    # lift
    if kind in ('wait', 'wait_slash', 'dep_unknown', 'dep_nonnumeric',
                'dep_declined', 'dep_merged'):
        for i in range(len(texts)):
            hist.apply({'op': 'delete_comment', 'pr': P, 'nth': 0,
                        'holds': True})
    if kind in ('dep_two', 'dep_two_one_comment') and len(deps) == 2:
        # one dependency merged, the other still open: P must still be held
        for s in merge_steps(hist, deps[0]):
            hist.apply(s)
        for _ in range(2):
            hist.apply({'op': 'report_pr', 'pr': P, 'state': 'SUCCESSFUL'})
            hist.apply({'op': 'pr_event', 'pr': P})
            if hist.violations:
                return
        hist.flags.add('c12_partial_dependencies')
        lift = merge_steps(hist, deps[1])
    for s in lift:
        hist.apply(s)
        if hist.violations:
            return
    for s in rnd + rnd:
        hist.apply(s)
    hist.apply({'op': 'report_pr', 'pr': P, 'state': 'SUCCESSFUL'})
    if long_lived:
        hist.apply({'op': 'pr_event', 'pr': P})
    else:
        hist.apply({'op': 'compare_probe', 'slot': 'never_held',
                    'tag': 'C12', 'pr': P,
                    'final': {'op': 'pr_event', 'pr': P}})
    hist.flags.add('c12_lift_' + kind)


def nontrivial(h):
    return 'c12_hold' in h.flags or 'c12_foreign' in h.flags


def classes(h):
    return ['mode_' + h.world.mode] + ['flag_' + f for f in sorted(h.flags)]


def shard(ctx, i, acc):
    n = 6 if ctx['tier'] == 'quick' else 80
    explore(ctx, i, acc, monitors, n, nontrivial=nontrivial, classes=classes,
            body=body, params_kw={'hotfix': False})


def run(ctx):
    return run_shards(__name__, 'shard', ctx, list(range(ctx['nproc'])))


def replay(ctx, case, acc):
    sc = Scratch()
    try:
        viols, _ = replay_case(sc, case, monitors())
        for msg, sig in viols:
            acc.violation(msg, case, sig)
    finally:
        sc.cleanup()
