"""C05 - a queue evaluation merges the longest all-green prefix of the queue.

Exhaustive enumeration (engine E2): the real BranchCascade / QueueCollection /
QueueBranch / QueueIntegrationBranch run over an in-memory commit graph
(vf.fakegit); the oracle is written from the property statement. A seeded
sample of the enumerated queues, and every disagreement, is rebuilt with real
git and pushed through the real QueueCollection.build to validate the
in-memory builder.
"""
import hashlib
import itertools
import json
import os
import re
import shutil
import tempfile
from copy import deepcopy

from vf import fakegit as fg
from vf import stubs
from vf.cli import HarnessError, run_shards

LEVEL = 'exploration'
RULE = ('case = (cascade, destination of each queued pull request in order '
        'of entry, SUCCESSFUL/FAILED for every queue commit). Cascades: 1-3 '
        'development versions x stabilization branches (quick: <= 1, '
        'thorough: every subset) x one hotfix branch (absent, older than '
        'every development branch, or on the line of any of them); thorough '
        'adds development/<major> names, two hotfix branches and a hotfix at '
        'revision 2 for <= 3 PRs. Queue commits are built in an in-memory '
        'DAG by the recipe of add_to_queue, one merge commit per (pull '
        'request, version). The real BranchCascade.build + QueueCollection '
        '(_add_branch in git ref order, and in reversed / seeded-shuffled '
        'order whenever that changes the finalized tables; finalize; '
        'validate) run on real branch objects; mergeable_prs, the tips of '
        'mergeable_queues and failed_prs are compared with the statement-'
        'derived oracle (per queue - the development/stabilization queue and '
        'each hotfix queue - the longest prefix whose newest commit on every '
        'targeted version is SUCCESSFUL). Side checks on seeded samples: '
        'FAILED replaced by INPROGRESS/NOTSTARTED/STOPPED (same selection, '
        'failed_prs reports FAILED only), other pull request ids (same '
        'selection), force merge (whole queue), bulk mode against the '
        'complete pipeline on new objects, in-memory git against real git. '
        'non-trivial = >= 2 pull requests and >= 1 non-SUCCESSFUL commit; '
        'distinct by (structure, status bitmask, add order). '
        'coverage.complete_subspaces lists exactly what was enumerated '
        'completely.')
ASSUMPTIONS = [
    'git replaced by an in-memory commit DAG (validated against real git on '
    'coverage.traces_validated_on_real_git cases), git host replaced by a '
    'status table',
    'state alphabet reduced to {SUCCESSFUL, FAILED} in the exhaustive part: '
    'the selection only tests status != SUCCESSFUL; INPROGRESS / NOTSTARTED '
    '/ STOPPED are covered by a metamorphic sample',
    'merge paths are those of handle_merge_queues (cascade built without a '
    'destination branch, so hotfix branches open no merge path)',
]

KEY = 'pre-merge'
FOUR_PR_CASCADES = ('4-PR queues: every main cascade without hotfix branch '
                    '(all stabilization subsets), and the cascades with <= 1 '
                    'stabilization branch and a hotfix branch older than all '
                    'development branches or on the newest line')
OK, KO = 'SUCCESSFUL', 'FAILED'
ALT_STATES = ('INPROGRESS', 'NOTSTARTED', 'STOPPED')
NSHARDS = 64


def h32(*parts):
    s = '|'.join(str(p) for p in parts)
    return int(hashlib.sha1(s.encode()).hexdigest()[:8], 16)


# ------------------------------------------------------------------ domain

MAIN_DEVS = (['10.0'], ['5.1', '10.0'], ['4.3', '5.1', '10.0'])
# development/<major> variants (minor None sorts last within a major)
MAJOR_DEVS = (['10'], ['4.3', '4'], ['4.3', '4', '5.1'], ['4.3', '5.1', '5'],
              ['4', '5'])
STAB_MICRO = {'4.3': '4.3.18', '5.1': '5.1.4', '10.0': '10.0.1'}
HF_MICRO = {'4.3': '4.3.17', '5.1': '5.1.3', '10.0': '10.0.0', '4.2': '4.2.9'}


def cascades(tier):
    """Yield (tag, cascade-dict). tag names the sub-space."""
    for devs in MAIN_DEVS:
        xy = [d for d in devs if '.' in d]
        for r in range(len(xy) + 1):
            for stab_on in itertools.combinations(xy, r):
                if tier == 'quick' and r > 1:
                    continue
                stabs = [STAB_MICRO[v] for v in stab_on]
                yield 'main', {'devs': devs, 'stabs': stabs, 'hotfixes': []}
                # one hotfix branch: older than every development branch,
                # or on the line of one of them
                for hxy in ['4.2'] + xy:
                    yield 'main', {'devs': devs, 'stabs': stabs,
                                   'hotfixes': [HF_MICRO[hxy]]}
    if tier == 'thorough':
        for devs in MAJOR_DEVS:
            xy = [d for d in devs if '.' in d]
            for r in range(len(xy) + 1):
                for stab_on in itertools.combinations(xy, r):
                    stabs = [STAB_MICRO[v] for v in stab_on]
                    for hf in ([], ['4.2.9']):
                        yield 'major_only', {'devs': devs, 'stabs': stabs,
                                             'hotfixes': hf}
        # two hotfix branches, and a hotfix branch at revision 2
        for devs in MAIN_DEVS[1:]:
            for stabs in ([], [STAB_MICRO[devs[0]]], [STAB_MICRO[devs[-1]]]):
                yield 'two_hotfixes', {
                    'devs': devs, 'stabs': stabs,
                    'hotfixes': ['4.2.9', HF_MICRO[devs[-1]]]}
                yield 'hfrev2', {'devs': devs, 'stabs': stabs,
                                 'hotfixes': [HF_MICRO[devs[0]]], 'hfrev': 2}


def destinations(casc):
    out = []
    for v in casc['devs']:
        if v in STAB_MICRO and STAB_MICRO[v] in casc['stabs']:
            out.append('stabilization/' + STAB_MICRO[v])
        out.append('development/' + v)
    out.extend('hotfix/' + h for h in casc['hotfixes'])
    return out


def structures(tier):
    """Deterministic list of (tag, spec, mode). mode: 'all' = every status
    assignment, 'le2' = at most two non-SUCCESSFUL commits."""
    out = []
    seen = set()
    for tag, casc in cascades(tier):
        ck = json.dumps(casc, sort_keys=True)
        if ck in seen:
            continue
        seen.add(ck)
        dsts = destinations(casc)
        maxpr = 3 if tier == 'quick' or tag != 'main' else 4
        for n in range(1, maxpr + 1):
            if n == 4 and casc['hotfixes'] and not (
                    len(casc['stabs']) <= 1 and casc['hotfixes'][0] in
                    ('4.2.9', HF_MICRO[casc['devs'][-1]])):
                continue            # see FOUR_PR_CASCADES
            for choice in itertools.product(dsts, repeat=n):
                spec = dict(casc)
                spec['prs'] = [[i + 1, d] for i, d in enumerate(choice)]
                ncommits = sum(len(fg.targets(spec, d)) for d in choice)
                mode = 'all' if n <= 3 or ncommits <= 12 else 'le2'
                out.append((tag, spec, mode, ncommits))
    return out


def masks(ncommits, mode):
    if mode == 'all':
        return range(1 << ncommits)
    out = [0]
    out.extend(1 << i for i in range(ncommits))
    out.extend((1 << i) | (1 << j) for i in range(ncommits)
               for j in range(i + 1, ncommits))
    return out


def nmasks(ncommits, mode):
    if mode == 'all':
        return 1 << ncommits
    return 1 + ncommits + ncommits * (ncommits - 1) // 2


# ------------------------------------------------------------------ oracle

def queues_of(spec):
    """The independent queues: {'dev': [pr ids in order of entry],
    '<hotfix queue version>': [...]} and the versions of each."""
    qs = {'dev': []}
    for pr_id, dst in spec['prs']:
        if dst.startswith('hotfix/'):
            qs.setdefault(fg.targets(spec, dst)[0], []).append(pr_id)
        else:
            qs['dev'].append(pr_id)
    return qs


def oracle(spec, state, force=False):
    """state: {(pr_id, version): build state}. Returns
    (selected {queue: [ids]}, tips {version: pr id whose commit the
    destination moves to})."""
    tv = {pr_id: fg.targets(spec, dst) for pr_id, dst in spec['prs']}
    selected, tips = {}, {}
    for qname, ids in queues_of(spec).items():
        best = []
        for k in range(len(ids), 0, -1):
            prefix = ids[:k]
            newest = {}
            for p in prefix:            # later entries overwrite: newest
                for v in tv[p]:
                    newest[v] = p
            if force or all(state[(p, v)] == OK for v, p in newest.items()):
                best = prefix
                tips.update(newest)
                break
        selected[qname] = best
    return selected, tips


def selftest():
    """USER_DOC.md 'Queues' scenarios 1-3 (+ the probe case F1)."""
    spec = {'devs': ['1.0', '2.0', '3.0'], 'stabs': [], 'hotfixes': [],
            'prs': [[42, 'development/1.0'], [43, 'development/1.0'],
                    [44, 'development/1.0']]}

    def st(rows):
        return {(p, v): (OK if c == 'v' else 'INPROGRESS' if c == 'c'
                         else KO)
                for p, row in zip((42, 43, 44), rows)
                for v, c in zip(('1.0', '2.0', '3.0'), row)}
    exp = [(('vvx', 'vvx', 'vvv'), [42, 43, 44]),
           (('vvv', 'vvv', 'vvc'), [42, 43]),
           (('xvv', 'vxv', 'vvx'), [])]
    for rows, want in exp:
        got, _ = oracle(spec, st(rows))
        if got['dev'] != want:
            raise HarnessError('oracle self-test (USER_DOC scenario) failed: '
                               '%r -> %r, documented %r' % (rows, got, want))
    f1 = {'devs': ['4.3', '5.1', '10.0'], 'stabs': ['5.1.4'], 'hotfixes': [],
          'prs': [[1, 'development/4.3'], [2, 'development/4.3'],
                  [3, 'stabilization/5.1.4']]}
    state = {(p, v): OK for p, d in f1['prs'] for v in fg.targets(f1, d)}
    state[(1, '4.3')] = state[(2, '10.0')] = state[(3, '5.1.4')] = KO
    got, tips = oracle(f1, state)
    if got['dev'] or tips:
        raise HarnessError('oracle self-test (F1) failed: %r' % (got,))


# ----------------------------------------------- the code under test, once

class World:
    """One structure (cascade + queued PRs) in memory, real bert-e objects."""
    def __init__(self, spec):
        from bert_e.workflow.gitwaterflow import branches as B
        self.B = B
        self.spec = spec
        be = fg.MemBackend()
        self.qnames = fg.build_queue_world(spec, be)   # (pr, v) -> q/w name
        self.dag = be.dag
        self.repo = fg.FakeRepo(be.dag)
        self.commits = [(p, v) for p, d in spec['prs']
                        for v in fg.targets(spec, d)]
        self.sha = {k: be.sha(n) for k, n in self.qnames.items()}
        self.by_qname = {n: k for k, n in self.qnames.items()}
        # what handle_merge_queues / build_queue_collection do
        cascade = B.BranchCascade()
        cascade.build(self.repo)
        self.merge_paths = cascade.get_merge_paths()
        self.git_order = sorted(n for n in be.dag.refs if n.startswith('q/'))
        self.branches = {n: B.branch_factory(self.repo, n)
                         for n in self.git_order}
        self.queues = queues_of(spec)
        self._tpl = {}
        self.qversions = {}
        for p, v in self.commits:
            qn = v if v.count('.') == 3 else 'dev'
            if v not in self.qversions.setdefault(qn, []):
                self.qversions[qn].append(v)

    def state_of(self, mask, ko=KO):
        return {c: (ko if (mask >> i) & 1 else OK)
                for i, c in enumerate(self.commits)}

    def order(self, kind, seed=0):
        if kind == 'git':
            return self.git_order
        if kind == 'reversed':
            return self.git_order[::-1]
        return sorted(self.git_order, key=lambda n: h32(kind, seed, n))

    def collection(self, state, order, force=False, fresh=False):
        B = self.B
        qc = B.QueueCollection(self.host(state), KEY, self.merge_paths,
                               force)
        for n in order:
            qc._add_branch(B.branch_factory(self.repo, n) if fresh
                           else self.branches[n])
        qc.finalize()
        return qc

    def layout(self, order):
        """Normal form of the collection after finalize (status-free)."""
        B = self.B
        try:
            qc = self.collection({}, order)
        except (fg.UnsupportedGitCommand, HarnessError):
            raise
        except Exception as e:
            return ['exception', type(e).__name__]
        return [(k, str(v[B.QueueBranch]),
                 [str(b) for b in v[B.QueueIntegrationBranch]])
                for k, v in qc._queues.items()]

    def host(self, state):
        return stubs.FakeHost({(self.sha[c], KEY): s
                               for c, s in state.items()})

    def template(self, kind, order):
        """The collection of this structure fed in `order`, finalized and
        validated once (neither step looks at build statuses)."""
        import bert_e.exceptions as exc
        if kind not in self._tpl:
            try:
                qc = self.collection({}, order)
                qc.validate()
                self._tpl[kind] = ('ok', qc)
            except exc.IncoherentQueues as e:
                self._tpl[kind] = ('incoherent',
                                   sorted(re.findall(r'\[(Q\d+)\]', str(e))))
            except (fg.UnsupportedGitCommand, HarnessError):
                raise
            except Exception as e:
                self._tpl[kind] = ('exception', '%s: %s' % (
                    type(e).__name__, str(e)[:200]))
        return self._tpl[kind]

    def evaluate(self, state, order, force=False, fresh=False, kind=None):
        """-> ('ok', prs, tips{version: (commit key, sha)}, failed_prs)
        | ('incoherent', codes) | ('exception', text).

        kind=None: the whole pipeline (QueueCollection(), _add_branch in
        `order`, finalize, validate) for this one case, on new branch objects
        if `fresh`. kind=<order name>: a deep copy of the validated template
        of that order with this case's status table as host (bulk mode)."""
        import bert_e.exceptions as exc
        if kind is None:
            try:
                qc = self.collection(state, order, force, fresh)
                qc.validate()
            except exc.IncoherentQueues as e:
                return ('incoherent',
                        sorted(re.findall(r'\[(Q\d+)\]', str(e))))
            except (fg.UnsupportedGitCommand, HarnessError):
                raise
            except Exception as e:
                return ('exception', '%s: %s' % (type(e).__name__,
                                                 str(e)[:200]))
        else:
            tpl = self.template(kind, order)
            if tpl[0] != 'ok':
                return tpl
            qc = deepcopy(tpl[1])
            qc.bbrepo = self.host(state)
            qc.force_merge = force
        B = self.B
        try:
            prs = list(qc.mergeable_prs)
            mq = qc.mergeable_queues
            tips = {}
            pairs = merge_queue_tips(B, mq)
            if isinstance(pairs, str):
                return ('exception', pairs)
            for version, src in pairs:
                tips[version] = (self.by_qname[str(src)],
                                 src.get_latest_commit())
            failed = list(qc.failed_prs)
        except fg.UnsupportedGitCommand:
            raise
        except Exception as e:      # an outcome, judged by the oracle
            return ('exception', '%s: %s' % (type(e).__name__, str(e)[:200]))
        return ('ok', prs, tips, failed)


def merge_queue_tips(B, mq):
    """Which destination the real merge_queues() fast-forwards to which queue
    commit: -> [(version, queue-integration branch)] or an error text.
    Branch.merge / Branch.remove are recorders for the duration of the call
    (the graph of the fake repository is frozen; on real git the clone is
    left untouched)."""
    import bert_e.lib.git as bgit
    from bert_e.workflow.gitwaterflow import queueing
    merged = []
    saved = (bgit.Branch.merge, bgit.Branch.remove)

    def rec_merge(self_, *srcs, **kw):
        merged.append((str(self_), srcs))

    def rec_remove(self_, *a, **kw):
        pass
    bgit.Branch.merge, bgit.Branch.remove = rec_merge, rec_remove
    try:
        queueing.merge_queues(mq)
    finally:
        bgit.Branch.merge, bgit.Branch.remove = saved
    dst_version = {str(val[B.QueueBranch].dst_branch):
                   val[B.QueueBranch].version for val in mq.values()}
    out, seen = [], set()
    for dst, srcs in merged:
        if len(srcs) != 1 or dst not in dst_version or \
                dst_version[dst] in seen:
            return 'merge_queues merged %r into %s' % (
                [str(x) for x in srcs], dst)
        seen.add(dst_version[dst])
        out.append((dst_version[dst], srcs[0]))
    return out


def judge(world, state, res, force=False):
    """Compare one outcome with the statement. -> list of (clause, queue,
    text); empty = agreement."""
    spec = world.spec
    want_sel, want_tips = oracle(spec, state, force)
    if res[0] == 'incoherent':
        return [('validate_rejects_wellformed', 'all',
                 'validate() raised IncoherentQueues %s' % (res[1],))]
    if res[0] == 'exception':
        return [('exception', 'all', res[1])]
    _, prs, tips, failed = res
    out = []
    all_ids = [p for p, _ in spec['prs']]
    if len(set(prs)) != len(prs) or any(p not in all_ids for p in prs):
        out.append(('not_a_prefix', 'all',
                    'mergeable_prs %r has duplicates or unknown ids' % prs))
        return out
    for qname, ids in world.queues.items():
        got = [p for p in prs if p in ids]
        want = want_sel[qname]
        vers = world.qversions.get(qname, [])
        got_t = {v: tips[v] for v in vers if v in tips}
        want_t = {v: want_tips[v] for v in vers if v in want_tips}
        wrong_commit = [v for v, ((p, pv), sha) in got_t.items()
                        if pv != v or sha != world.sha[(p, v)]]
        got_tp = {v: pk[0] for v, (pk, sha) in got_t.items()}
        if got == want and got_tp == want_t and not wrong_commit:
            continue
        head = 'queue %s: selected %r, statement demands %r; ' % (
            qname, got, want)
        if got != ids[:len(got)]:
            out.append(('not_a_prefix', qname, head + 'not a prefix of the '
                        'order of entry %r' % ids))
            continue
        if force:
            out.append(('force_merge_not_whole_queue', qname, head +
                        'tips %r want %r' % (got_tp, want_t)))
            continue
        red = sorted(v for v, p in got_tp.items() if state[(p, v)] != OK)
        if red:
            out.append(('selected_tip_not_green', qname, head + 'destination '
                        '%s would be fast-forwarded to the %s queue commit of'
                        ' PR %s' % (fg.branch_of(red[0]),
                                    state[(got_tp[red[0]], red[0])],
                                    got_tp[red[0]])))
            continue
        # tips the selection itself implies
        implied = {}
        tv = {p: fg.targets(spec, d) for p, d in spec['prs']}
        for p in got:
            for v in tv[p]:
                implied[v] = p
        if got_tp != implied or wrong_commit:
            out.append(('tip_mismatch', qname, head + 'tips %r, the selected '
                        'PRs imply %r' % (got_tp, implied)))
            continue
        if len(got) < len(want):
            out.append(('not_longest_prefix', qname, head + 'a longer prefix '
                        'is all green'))
            continue
        raise HarnessError('oracle inconsistent on %r %r: got %r want %r' % (
            spec, state, res, (want_sel, want_tips)))
    return out


IDMAP = {1: 12, 2: 3, 3: 107, 4: 1}
IDBACK = {v: k for k, v in IDMAP.items()}


def renamed(res, ident=False):
    if res[0] != 'ok':
        return res
    f = (lambda p: p) if ident else IDBACK.get
    return ('ok', [f(p) for p in res[1]],
            {v: f(pk[0]) for v, (pk, sha) in res[2].items()},
            [f(p) for p in res[3]])


def case_json(spec, state, order_kind='git', force=False, seed=0):
    c = {'kind': 'mem', 'spec': spec, 'order': order_kind, 'force': force,
         'not_successful': sorted([p, v, s] for (p, v), s in state.items()
                                  if s != OK)}
    if order_kind not in ('git', 'reversed'):
        c['order_seed'] = seed
    return c


def table(spec, state):
    vers = []
    for p, d in spec['prs']:
        for v in fg.targets(spec, d):
            if v not in vers:
                vers.append(v)
    lines = []
    for p, d in spec['prs']:
        lines.append('  PR%-2d -> %-22s %s' % (p, d, ' '.join(
            '%s:%s' % (v, {OK: 'ok', KO: 'FAILED'}.get(
                state[(p, v)], state[(p, v)])) for v in fg.targets(spec, d))))
    return '\n'.join(lines)


def report(acc, world, state, verdicts, order_kind='git', force=False,
           seed=0, extra_sig=None):
    spec = world.spec
    for clause, qname, text in verdicts:
        sig = {'clause': clause,
               'queue': 'hotfix' if qname not in ('dev', 'all') else qname}
        if order_kind != 'git':
            sig['add_order'] = 'permuted'
        if extra_sig:
            sig.update(extra_sig)
        acc.violation(
            'C05 %s\n  cascade devs=%s stabs=%s hotfixes=%s\n%s\n  %s' % (
                clause, spec['devs'], spec['stabs'], spec['hotfixes'],
                table(spec, state), text),
            case_json(spec, state, order_kind, force, seed), sig)


# ----------------------------------------------------------- real git part

def real_git_compare(world, states):
    """Rebuild the structure with real git (git init, porcelain commits,
    merge --no-ff), run the real cascade.build + QueueCollection.build +
    validate on a real bert_e.lib.git.Repository, and demand the same
    outcome as in memory for every state table in `states`.
    Returns the number of compared evaluations; raises HarnessError on a
    builder mismatch."""
    import bert_e.exceptions as exc
    B = world.B
    rb = fg.RealBackend()
    n = 0
    try:
        qnames = fg.build_queue_world(world.spec, rb)
        if qnames != world.qnames:
            raise HarnessError('builder: branch names differ')
        rsha = {k: rb.sha(name) for k, name in qnames.items()}
        if len(set(rsha.values())) != len(rsha):
            raise HarnessError('real git: queue commits are not distinct')
        repo = rb.clone()
        cascade = B.BranchCascade()
        cascade.build(repo)
        paths = [[b.name for b in p] for p in cascade.get_merge_paths()]
        mpaths = [[b.name for b in p] for p in world.merge_paths]
        if paths != mpaths:
            raise HarnessError('builder: merge paths differ: %r / %r' %
                               (paths, mpaths))
        for state in states:
            host = stubs.FakeHost({(rsha[c], KEY): s
                                   for c, s in state.items()})
            qc = B.QueueCollection(host, KEY, cascade.get_merge_paths(),
                                   False)
            qc.build(repo)
            try:
                qc.validate()
                tips = {}
                pairs = merge_queue_tips(B, qc.mergeable_queues)
                if isinstance(pairs, str):
                    real = ('exception', pairs)
                else:
                    for version, src in pairs:
                        if src.get_latest_commit() != \
                                rsha[world.by_qname[str(src)]]:
                            raise HarnessError('real git: tip sha differs')
                        tips[version] = world.by_qname[str(src)]
                    real = ('ok', list(qc.mergeable_prs), tips,
                            list(qc.failed_prs))
            except exc.IncoherentQueues as e:
                real = ('incoherent',
                        sorted(re.findall(r'\[(Q\d+)\]', str(e))))
            mem = world.evaluate(state, world.git_order, fresh=True)
            if mem[0] == 'ok':
                mem = ('ok', mem[1], {v: pk for v, (pk, s) in mem[2].items()},
                       mem[3])
            if mem != real:
                raise HarnessError(
                    'in-memory builder disagrees with real git on %s:\n'
                    ' memory %r\n real   %r' % (
                        json.dumps(case_json(world.spec, state)), mem, real))
            n += 1
    finally:
        rb.close()
    return n


# ------------------------------------------------------------------ shards

class Buf:
    """Same interface as Acc.violation; keeps the smallest cases of every
    signature (the runner keeps at most 50 violations per shard, in order of
    arrival, and large structures are swept first)."""
    KEEP = 6

    def __init__(self):
        self.best = {}
        self.seen = 0

    def violation(self, message, case, signature):
        self.seen += 1
        k = json.dumps(signature, sort_keys=True)
        body = json.dumps(case, sort_keys=True)
        lst = self.best.setdefault(k, [])
        item = (len(body), body, message, case, signature)
        if len(lst) < self.KEEP:
            lst.append(item)
            lst.sort(key=lambda x: x[:2])
        elif item[:2] < lst[-1][:2]:
            lst[-1] = item
            lst.sort(key=lambda x: x[:2])

    def flush(self, acc):
        n = 0
        for k in sorted(self.best):
            for _, _, message, case, signature in self.best[k]:
                acc.violation(message, case, signature)
                n += 1
        acc.cls('violations_seen', self.seen - n)


def spec_id(spec):
    return json.dumps([spec['devs'], spec['stabs'], spec['hotfixes'],
                       spec.get('hfrev', 1), [d for _, d in spec['prs']]],
                      separators=(',', ':'))


def shard_sweep(ctx, shard, acc):
    stubs.stub_render()
    tier, seed = ctx['tier'], ctx['seed']
    allst = structures(tier)
    mine = shard['structures']
    disagreements = []           # (index, mask, clause)
    real_jobs = {}               # index -> set of masks
    sub = {}
    buf = Buf()
    for idx in mine:
        tag, spec, mode, ncommits = allst[idx]
        w = World(spec)
        npr = len(spec['prs'])
        if len(w.commits) != ncommits:
            raise HarnessError('commit count mismatch')
        # --- add orders: git order is what QueueCollection.build sees; the
        # others only matter if they change the finalized tables
        orders = [('git', w.git_order)]
        base_layout = w.layout(w.git_order)
        for kind in ('reversed', 'shuffle'):
            o = w.order(kind, seed)
            if w.layout(o) != base_layout:
                orders.append((kind, o))
                acc.cls('structures_sensitive_to_add_order')
        # --- PR ids are arbitrary numbers: same queue under other ids
        w2 = None
        if 2 <= npr <= 3 and h32('ids', seed, idx) % 8 == 0:
            spec2 = dict(spec)
            spec2['prs'] = [[IDMAP[p], d] for p, d in spec['prs']]
            w2 = World(spec2)
            acc.cls('structures_rerun_under_other_pr_ids')
        subkey = '%s/%dpr/%s' % (tag, npr, mode)
        sub[subkey] = sub.get(subkey, 0) + 1
        sample_real = npr >= 2 and h32('real', seed, spec_id(spec)) % \
            (64 if tier == 'quick' else 256) == 0
        for mask in masks(ncommits, mode):
            state = w.state_of(mask)
            nfail = bin(mask).count('1')
            nontriv = npr >= 2 and nfail >= 1
            for kind, o in orders:
                res = w.evaluate(state, o, kind=kind)
                if mask == 0 or h32('full', idx, mask) % (
                        32 if npr <= 3 else 256) == 0:
                    # the whole pipeline on new branch objects must give
                    # what the validated template gives
                    acc.cls('full_pipeline_cases')
                    if w.evaluate(state, o, fresh=True) != res:
                        raise HarnessError('bulk mode differs from the full '
                                           'pipeline on %s' % json.dumps(
                                               case_json(spec, state, kind)))
                verdicts = judge(w, state, res)
                key = (idx << 20 | mask) << 2 | \
                    ('git', 'reversed', 'shuffle').index(kind)
                classes = ['prs_%d' % npr]
                if res[0] == 'ok':
                    classes.append('selected_%s' % (
                        'none' if not res[1] else
                        'all' if len(res[1]) == npr else 'part'))
                    if len(w.merge_paths) > 1:
                        classes.append('multi_path')
                    # failed_prs only reports FAILED
                    for p in res[3]:
                        if not any(state[c] == KO for c in w.commits
                                   if c[0] == p):
                            verdicts.append((
                                'failed_prs_reports_non_failed', 'all',
                                'failed_prs=%r' % (res[3],)))
                acc.case(key, nontriv, classes=classes,
                         sample=None if (mask * 7 + idx) % 9973 else {
                             'spec': spec, 'not_successful': [
                                 list(c) for c in w.commits
                                 if state[c] != OK],
                             'outcome': [res[0], res[1]]})
                if verdicts:
                    report(buf, w, state, verdicts, kind, seed=seed)
                    acc.cls('disagreements')
                    for v in verdicts:
                        acc.cls('disagree_' + v[0])
                    if kind == 'git':
                        disagreements.append((idx, mask, verdicts[0][0]))
                        real_jobs.setdefault(idx, set()).add(mask)
            if w2 is not None:
                res2 = w2.evaluate(w2.state_of(mask), w2.git_order,
                                   kind='git')
                acc.cls('other_pr_ids_cases')
                if renamed(res2) != renamed(
                        w.evaluate(state, w.git_order, kind='git'),
                        ident=True):
                    report(buf, w2, w2.state_of(mask), [(
                        'pr_id_dependence', 'all', 'outcome %r differs from '
                        'the outcome under ids 1..n' % (res2[:2],))])
            # --- metamorphic sample: other non-green states, same selection
            if mask and h32('meta', seed, idx, mask) % (
                    32 if npr <= 3 else 256) == 0:
                metamorphic(acc, buf, w, state, mask, seed)
            # --- force merge: the whole queue whatever the states
            if mask == 0 or mask == (1 << ncommits) - 1 or \
                    h32('force', seed, idx, mask) % (
                        64 if npr <= 3 else 512) == 0:
                resf = w.evaluate(state, w.git_order, force=True,
                                  kind='git' if mask else None)
                vf = judge(w, state, resf, force=True)
                acc.cls('force_merge_cases')
                if vf:
                    report(buf, w, state, vf, 'git', force=True)
            if sample_real and (mask == 0 or mask == ((
                    h32('rs', seed, idx) % ((1 << ncommits) - 1)) + 1)):
                real_jobs.setdefault(idx, set()).add(mask)
    for k, v in sub.items():
        acc.extra['structures:' + k] = v
    acc.extra['disagreements_git_order'] = len(disagreements)
    buf.flush(acc)
    with open(os.path.join(shard['scratch'], 'p1_%03d.json' % shard['n']),
              'w') as f:
        json.dump({'disagreements': disagreements,
                   'real': sorted((i, sorted(m))
                                  for i, m in real_jobs.items())}, f)


def shard_real(ctx, shard, acc):
    """Phase 2: the seeded sample and the disagreements, on real git."""
    stubs.stub_render()
    allst = structures(ctx['tier'])
    nreal = ndis = 0
    for idx, ms, dis in shard['jobs']:
        w = World(allst[idx][1])
        nreal += real_git_compare(w, [w.state_of(m) for m in ms])
        ndis += len([m for m in ms if m in dis])
    acc.extra['traces_validated_on_real_git'] = nreal
    acc.extra['disagreements_validated_on_real_git'] = ndis


def metamorphic(acc, buf, w, state, mask, seed):
    """FAILED -> INPROGRESS / NOTSTARTED / STOPPED (uniformly, and mixed):
    same selection; failed_prs must not report a PR without FAILED commit."""
    base = w.evaluate(state, w.git_order, kind='git')
    if base[0] != 'ok':
        return
    variants = [{c: (alt if s == KO else s) for c, s in state.items()}
                for alt in ALT_STATES]
    mixed = {}
    for c, s in state.items():
        mixed[c] = s if s == OK else \
            ((KO,) + ALT_STATES)[h32('mix', seed, mask, c) % 4]
    variants.append(mixed)
    for st in variants:
        acc.cls('metamorphic_cases')
        res = w.evaluate(st, w.git_order, kind='git')
        direct = judge(w, st, res)      # the oracle reads any alphabet
        if direct:
            report(buf, w, st, direct, extra_sig={'alphabet': 'extended'})
            continue
        bad = None
        if res[0] != 'ok' or res[1] != base[1] or res[2] != base[2]:
            bad = ('state_alphabet', 'selection differs when FAILED is '
                   'replaced by another non-green state: %r vs %r' % (
                       res[:3], base[:3]))
        else:
            for p in res[3]:
                if not any(st[c] == KO for c in w.commits if c[0] == p):
                    bad = ('failed_prs_reports_non_failed',
                           'failed_prs=%r without FAILED commit' % (res[3],))
        if bad:
            report(buf, w, st, [(bad[0], 'all', bad[1])])


def run(ctx):
    selftest()
    tier = ctx['tier']
    allst = structures(tier)
    # longest-processing-time dealing of structures into shards
    order = sorted(range(len(allst)),
                   key=lambda i: (-nmasks(allst[i][3], allst[i][2]), i))
    shards = [{'n': n, 'structures': []} for n in range(NSHARDS)]
    load = [0] * NSHARDS
    for i in order:
        n = load.index(min(load))
        shards[n]['structures'].append(i)
        load[n] += nmasks(allst[i][3], allst[i][2]) + 40
    scratch = tempfile.mkdtemp(prefix='vf-c05-')
    try:
        for sh in shards:
            sh['scratch'] = scratch
        acc = run_shards(__name__, 'shard_sweep', ctx, shards, ctx['nproc'])
        dis, real = [], {}
        for n in range(NSHARDS):
            with open(os.path.join(scratch, 'p1_%03d.json' % n)) as f:
                d = json.load(f)
            dis.extend(d['disagreements'])
            for i, ms in d['real']:
                real.setdefault(i, set()).update(ms)
    finally:
        shutil.rmtree(scratch, ignore_errors=True)
    # phase 2: real git, in fresh (small) worker processes
    dis_by = {}
    for i, m, _ in dis:
        dis_by.setdefault(i, set()).add(m)
    jobs, skipped = [], 0
    for i in sorted(real):
        ms = sorted(real[i])
        if len(allst[i][1]['prs']) > 3 and len(ms) > 4:
            # 4-PR structures: the 4 disagreements with fewest failures
            ms.sort(key=lambda m: (bin(m).count('1'), m))
            skipped += len(ms) - 4
            ms = sorted(ms[:4])
        jobs.append((i, ms, sorted(dis_by.get(i, ()))))
    # bound the real-git work (a broken tree can disagree everywhere):
    # smallest structures first
    cap = 400 if tier == 'quick' else 1200
    jobs.sort(key=lambda j: (len(allst[j[0]][1]['prs']), allst[j[0]][3],
                             j[0]))
    kept, total = [], 0
    for j in jobs:
        if total + len(j[1]) > cap:
            skipped += len(j[1])
            continue
        kept.append(j)
        total += len(j[1])
    jobs = kept
    jobs.sort(key=lambda j: (-len(j[1]), j[0]))
    nsh = max(1, min(NSHARDS, len(jobs)))
    rshards = [{'n': n, 'jobs': jobs[n::nsh]} for n in range(nsh)]
    if jobs:
        acc2 = run_shards(__name__, 'shard_real', ctx, rshards, ctx['nproc'])
        acc.merge_dump(acc2.dump())
    acc.extra['disagreements_not_replayed_on_real_git'] = skipped
    acc.extra['exhaustive'] = True
    acc.extra['structures_total'] = len(allst)
    complete = []
    for k in sorted(acc.extra):
        if k.startswith('structures:'):
            _, tag, npr, mode = k.replace(':', '/').split('/')
            complete.append(
                '%s cascades, %s, %d structures: %s' % (
                    tag if npr != '4pr' else FOUR_PR_CASCADES, npr,
                    acc.extra[k],
                    'every {SUCCESSFUL,FAILED} assignment' if mode == 'all'
                    else 'only assignments with <= 2 non-SUCCESSFUL commits '
                    '(structures with > 12 queue commits)'))
    acc.extra['complete_subspaces'] = complete
    if os.environ.get('VERIF_C05_WRITE_CORPUS'):
        write_corpus(ctx, [(allst[i][1], m, c) for i, m, c in dis])
    return acc


def write_corpus(ctx, items):
    """Small committed corpus for the system-level check C03: queue shapes
    and status matrices on which the sweep disagrees with the oracle."""
    d = os.path.join(ctx['home'], 'corpus')
    os.makedirs(d, exist_ok=True)
    grouped = {}
    for spec, mask, clause in items:
        k = spec_id(spec)
        g = grouped.setdefault(k, {'spec': spec, 'cases': []})
        commits = [[p, v] for p, dd in spec['prs']
                   for v in fg.targets(spec, dd)]
        g['cases'].append({'clause': clause, 'failed': [
            c for i, c in enumerate(commits) if (mask >> i) & 1]})
    summary = {}
    keep = []
    for k in sorted(grouped, key=lambda k: (len(grouped[k]['spec']['prs']),
                                            k)):
        g = grouped[k]
        sp = g['spec']
        cls = '%d PRs, %d stabilization branch(es), %s' % (
            len(sp['prs']), len(sp['stabs']),
            'hotfix' if sp['hotfixes'] else 'no hotfix')
        summary[cls] = summary.get(cls, 0) + len(g['cases'])
        g['cases'].sort(key=lambda c: (len(c['failed']), c['failed']))
        g['n_cases'] = len(g['cases'])
        g['cases'] = g['cases'][:2]
        if len(sp['prs']) <= 3 and not sp['hotfixes'] and \
                set(sp['devs']) <= set(MAIN_DEVS[-1]):
            keep.append(g)
    out = {'property': 'C05', 'tier': ctx['tier'],
           'format': 'spec as vf.fakegit.build_queue_world (devs oldest -> '
                     'newest, prs = [id, destination] in order of entry); '
                     'failed = queue commits [pr, version] whose build is '
                     'FAILED, every other queue commit SUCCESSFUL; clause = '
                     'what vf.checks.c05.judge reported. Listed: the '
                     'structures with <= 3 PRs on development/4.3, 5.1, 10.0 '
                     'without hotfix branch, the 2 cases with fewest '
                     'failures each (n_cases = all of that structure); '
                     'all_disagreements_by_class counts every disagreeing '
                     'case of the sweep. Regenerate: VERIF_C05_WRITE_CORPUS=1'
                     ' bin/check C05 --tier thorough',
           'n_cases_total': len(items),
           'all_disagreements_by_class': dict(sorted(summary.items())),
           'structures': keep}
    with open(os.path.join(d, 'c05_disagreements.json'), 'w') as f:
        json.dump(out, f, separators=(',', ':'), sort_keys=True)


def replay(ctx, case, acc):
    stubs.stub_render()
    spec = case['spec']
    w = World(spec)
    state = {c: OK for c in w.commits}
    for p, v, s in case['not_successful']:
        state[(p, v)] = s
    kind = case.get('order', 'git')
    order = w.order(kind, case.get('order_seed', 0))
    force = case.get('force', False)
    res = w.evaluate(state, order, force=force, fresh=True)
    verdicts = judge(w, state, res, force=force)
    if any(s not in (OK, KO) for s in state.values()) and not verdicts:
        # metamorphic case: compare with the FAILED-only image
        base_state = {c: (OK if s == OK else KO) for c, s in state.items()}
        base = w.evaluate(base_state, order, fresh=True)
        if base[:3] != res[:3]:
            verdicts = [('state_alphabet', 'all', '%r vs %r' % (res, base))]
    if res[0] == 'ok':
        for p in res[3]:
            if not any(state[c] == KO for c in w.commits if c[0] == p):
                verdicts.append(('failed_prs_reports_non_failed', 'all',
                                 'failed_prs=%r' % (res[3],)))
    if verdicts:
        report(acc, w, state, verdicts, kind, force, case.get('order_seed', 0))
    if case.get('real_git') or os.environ.get('VERIF_C05_REAL'):
        real_git_compare(w, [state])
