"""C06 build gate: exhaustive status-vector matrix on the real
check_build_status (+ system part on real repositories, see sim)."""
import itertools

from vf import stubs
from vf.cli import run_shards

LEVEL = 'exploration'
RULE = ('E2 part: every vector over {SUCCESSFUL,INPROGRESS,NOTSTARTED,STOPPED,'
        'FAILED} for 1-4 integration branches x bypass source {none, admin '
        'comment, per-author setting, command line, bypass granted to another author listed before / after} x build key {set, empty}'
        ' x decoy layout, pushed through the real handle_comments + '
        'check_build_status on a real PullRequestJob; non-trivial = vector '
        'with >=2 branches, not all equal, no bypass, key set (distinct by '
        'full input tuple). E1 part: generated histories on real git, see '
        'coverage.sim_*.')
ASSUMPTIONS = ['git host and git replaced by in-memory fakes in the E2 part; '
               'template rendering stubbed']

STATES = ('SUCCESSFUL', 'INPROGRESS', 'NOTSTARTED', 'STOPPED', 'FAILED')
# decoy_*: another author is granted the bypass, the PR's author is listed
# with an unrelated bypass only (before / after the other one): no bypass
SOURCES = ('none', 'comment', 'author', 'cmdline', 'decoy_first',
           'decoy_last')


def cases():
    for n in (1, 2, 3, 4):
        for vec in itertools.product(STATES, repeat=n):
            for src in SOURCES:
                for key in ('pre-merge', ''):
                    for decoy in (0, 1):
                        yield (vec, src, key, decoy)


def oracle(vec, src, key):
    if src in ('comment', 'author', 'cmdline') or not key:
        return 'pass'
    if all(s == 'SUCCESSFUL' for s in vec):
        return 'pass'
    if any(s in ('FAILED', 'STOPPED') for s in vec):
        return 'failed'
    return 'wait'


def evaluate(case):
    import bert_e.exceptions as exc
    from bert_e.workflow import gitwaterflow as gwf
    vec, src, key, decoy = case
    over = {'build_key': key}
    if src == 'author':
        over['pr_author_options'] = {stubs.AUTHOR: ['bypass_build_status']}
    elif src == 'decoy_first':
        over['pr_author_options'] = {
            stubs.PEER1: ['bypass_build_status'],
            stubs.AUTHOR: ['bypass_jira_check']}
    elif src == 'decoy_last':
        over['pr_author_options'] = {
            stubs.AUTHOR: ['bypass_jira_check'],
            stubs.PEER1: ['bypass_build_status']}
    settings = stubs.load_settings(**over)
    comments = []
    if src == 'comment':
        comments.append(stubs.FakeComment(
            stubs.ADMIN, '@%s bypass_build_status' % stubs.ROBOT))
    if src == 'cmdline':
        stubs.set_cmdline_options(['bypass_build_status'])
    try:
        pr = stubs.FakePR(comments=comments)
        wbranches = [stubs.FakeBranch('w/%d' % i, 'c%011d' % i)
                     for i in range(len(vec))]
        statuses = {}
        for b, s in zip(wbranches, vec):
            statuses[(b.sha, key or 'pre-merge')] = s
            if decoy:
                # decoys: the opposite verdict under another key and on
                # another commit must not be looked at
                other = 'FAILED' if s == 'SUCCESSFUL' else 'SUCCESSFUL'
                statuses[(b.sha, 'other-key')] = other
                statuses[('d' + b.sha[1:], key or 'pre-merge')] = other
        host = stubs.FakeHost(statuses)
        job = stubs.make_job(settings, pr, host)
        gwf.handle_comments(job)
        try:
            gwf.check_build_status(job, wbranches)
            got = 'pass'
        except exc.BuildFailed as e:
            got = 'failed' if isinstance(e, exc.TemplateException) else '?'
        except (exc.BuildNotStarted, exc.BuildInProgress) as e:
            got = 'wait' if isinstance(e, exc.SilentException) and \
                not isinstance(e, exc.TemplateException) else '?'
    finally:
        if src == 'cmdline':
            stubs.reset_cmdline_options()
    return got


def shard_pure(ctx, shard, acc):
    stubs.stub_render()
    stubs.reset_cmdline_options()
    lo, step = shard
    for i, case in enumerate(cases()):
        if i % step != lo:
            continue
        vec, src, key, decoy = case
        want = oracle(vec, src, key)
        try:
            got = evaluate(case)
        except Exception as e:  # any other exception is a wrong outcome
            got = 'exc:%s' % type(e).__name__
        nontriv = (len(vec) >= 2 and len(set(vec)) > 1 and
                   src in ('none', 'decoy_first', 'decoy_last') and
                   bool(key))
        acc.case(repr(case), nontriv,
                 sample={'statuses': vec, 'bypass_source': src,
                         'build_key': key, 'decoys': bool(decoy),
                         'outcome': got},
                 classes=['pure_' + want])
        if got != want:
            acc.violation(
                'build gate: statuses=%s bypass=%s key=%r decoys=%s: '
                'expected %s, got %s' % (vec, src, key, decoy, want, got),
                {'kind': 'pure', 'case': case},
                {'part': 'pure', 'want': want, 'got': got})


def run(ctx):
    n = ctx['nproc']
    acc = run_shards(__name__, 'shard_pure', ctx, [(i, n) for i in range(n)])
    acc.extra['exhaustive'] = True
    acc.extra['pure_cases'] = acc.evaluations
    from vf.sim import c06sim
    acc2 = c06sim.run(ctx)
    acc.merge_dump(acc2.dump())
    return acc


def replay(ctx, case, acc):
    if case.get('kind') == 'pure':
        stubs.stub_render()
        stubs.reset_cmdline_options()
        c = case['case']
        c = (tuple(c[0]), c[1], c[2], c[3])
        want, got = oracle(c[0], c[1], c[2]), evaluate(c)
        if want != got:
            acc.violation('expected %s got %s on %r' % (want, got, c), case,
                          {'part': 'pure', 'want': want, 'got': got})
    else:
        from vf.sim import c06sim
        c06sim.replay(ctx, case, acc)
