"""C03: with queues on, destinations only advance to commits the harness
itself reported SUCCESSFUL."""
from hypothesis import strategies as st

from vf.cli import run_shards
from vf.sim import monitors as M
from vf.sim.driver import replay_case, STATES, PREFIXES, is_dest
from vf.sim.explore import explore
from vf.sim.world import Scratch, PEER1, PEER2, AUTHOR

LEVEL = 'exploration'
RULE = ('Histories as in C01 restricted to queue / skip_queue_when_not_needed '
        'modes (stabilization in ~60% of cascades), each starting with a '
        'generated prelude "open k in 1..4 PRs on generated destinations, '
        'approve, report green, evaluate (=> queued), assign a generated '
        'status matrix over {SUCCESSFUL,FAILED,STOPPED,INPROGRESS,NOTSTARTED} '
        'to all q/* tips, deliver a commit event", followed by 0-20 random '
        'steps (reports on superseded commits, re-reports, source pushes, '
        'admin jobs). Oracle: harness-own table commit -> last reported state; '
        'every ref-journal entry by Bert-E moving a destination must land on '
        'a commit that is SUCCESSFUL in that table, except force-merge jobs '
        'and direct merges of PRs whose build check is bypassed. Non-trivial '
        '= a destination movement produced by a queue evaluation while >= 2 '
        'PRs were queued and >= 1 queue commit was not SUCCESSFUL; distinct '
        'by hash of (params, steps). In addition the queue shapes of '
        'corpus/c05_disagreements.json (3-PR structures on which the C05 '
        'sweep disagreed with its oracle before repair R9) are rebuilt on '
        'real git through the real workflow and evaluated (quick: a '
        'seed-dependent slice of 48, thorough: all).')
ASSUMPTIONS = ['in-tree mock git host; real git on a local bare remote']


class Shape(M.Monitor):
    """Classifies queue evaluations (non-triviality bookkeeping)."""
    def before_job(self, hist, job, step):
        w = hist.world
        heads = w.heads()
        qw = [n for n in heads if n.startswith('q/w/')]
        prs = set(n.split('/')[2] for n in qw)
        hist._q_prs = len(prs)
        hist._q_nongreen = sum(1 for n in qw
                               if w.ci.get(heads[n]) != 'SUCCESSFUL')

    def after_job(self, hist, res, step):
        if res.status == 'Merged':
            hist.count('queue_merge')
            if getattr(hist, '_q_prs', 0) >= 2:
                hist.count('queue_merge_ge2_prs')
                if getattr(hist, '_q_nongreen', 0) >= 1:
                    hist.count('queue_merge_ge2_prs_with_nongreen')
                    hist.flags.add('c03_nontrivial')
        return ()


def monitors():
    return [Shape(), M.C03Validated()]


def stale_prelude(data, hist):
    """Skip-queue mode: a green, in-sync PR is evaluated after one of its
    later targets moved (another PR merged directly) - without a new build
    report in between."""
    w = hist.world
    chain = [n for n in w.chain if n in w.heads()]
    if len(chain) < 2:
        return False
    i = data.draw(st.integers(0, len(chain) - 2), label='first')
    j = data.draw(st.integers(i + 1, len(chain) - 1), label='later')
    hist.apply({'op': 'open_pr', 'src': 'bugfix/TEST-1-s1', 'dst': chain[i],
                'author': AUTHOR, 'base_back': 0})
    if not w.prs:
        return False
    p1 = max(w.prs)
    hist.apply({'op': 'pr_event', 'pr': p1})
    hist.apply({'op': 'report_pr', 'pr': p1, 'state': 'SUCCESSFUL'})
    hist.apply({'op': 'open_pr', 'src': 'feature/TEST-2-s2', 'dst': chain[j],
                'author': AUTHOR, 'base_back': 0})
    p2 = max(w.prs)
    if p2 == p1:
        return False
    for u in (PEER1, PEER2, AUTHOR):
        hist.apply({'op': 'approve', 'pr': p2, 'user': u})
    hist.apply({'op': 'pr_event', 'pr': p2})
    hist.apply({'op': 'report_pr', 'pr': p2, 'state': 'SUCCESSFUL'})
    hist.apply({'op': 'pr_event', 'pr': p2})
    for u in (PEER1, PEER2, AUTHOR):
        hist.apply({'op': 'approve', 'pr': p1, 'user': u})
    if data.draw(st.integers(0, 3), label='rereport') == 0:
        hist.apply({'op': 'report_pr', 'pr': p1, 'state': 'SUCCESSFUL'})
    hist.apply({'op': 'pr_event', 'pr': p1})
    hist.flags.add('c03_stale_prelude')
    return True


def manual_mid_prelude(data, hist):
    """Skip-queue mode: a commit is pushed by hand on a non-last integration
    branch (the documented way to repair one), CI reports green on every
    current tip (the later integration branches do not contain the repair
    yet), then the pull request is evaluated."""
    w = hist.world
    chain = [n for n in w.chain if n in w.heads()]
    if len(chain) < 3:
        return False
    i = data.draw(st.integers(0, len(chain) - 3), label='mm_first')
    hist.apply({'op': 'open_pr', 'src': 'bugfix/TEST-1-m1', 'dst': chain[i],
                'author': AUTHOR, 'base_back': 0})
    if not w.prs:
        return False
    p1 = max(w.prs)
    hist.apply({'op': 'pr_event', 'pr': p1})
    if data.draw(st.integers(0, 1), label='mm_red_first'):
        hist.apply({'op': 'report_pr', 'pr': p1, 'state': 'FAILED'})
        hist.apply({'op': 'pr_event', 'pr': p1})
    nw = len(chain) - i - 1          # integration branches of the PR
    hist.apply({'op': 'manual', 'pr': p1, 'kind': 'commit',
                'w': data.draw(st.integers(0, max(0, nw - 1)),
                               label='mm_w')})
    for u in (PEER1, PEER2, AUTHOR):
        hist.apply({'op': 'approve', 'pr': p1, 'user': u})
    hist.apply({'op': 'report_pr', 'pr': p1, 'state': 'SUCCESSFUL'})
    hist.apply({'op': 'pr_event', 'pr': p1})
    hist.apply({'op': 'pr_event', 'pr': p1})
    hist.flags.add('c03_manual_mid_prelude')
    return True


def older_blocked_prelude(data, hist):
    """Two queued pull requests with overlapping targets: the older one
    starts on a lower branch, the newer one on a later branch. Every build
    is green except those of the older one on the branches only it targets.
    Nothing of the older one may land anywhere (and so nothing of the newer
    one, which is stacked on it)."""
    w = hist.world
    chain = [n for n in w.chain if n in w.heads()]
    if len(chain) < 2:
        return False
    i = data.draw(st.integers(0, len(chain) - 2), label='ob_low')
    j = data.draw(st.integers(i + 1, len(chain) - 1), label='ob_high')
    for k, (src, dst) in enumerate((('bugfix/TEST-1-ob', chain[i]),
                                    ('feature/TEST-2-ob', chain[j]))):
        hist.apply({'op': 'open_pr', 'src': src, 'dst': dst,
                    'author': AUTHOR, 'base_back': 0})
        if len(w.prs) != k + 1:
            return False
        pr = max(w.prs)
        for u in (PEER1, PEER2, AUTHOR):
            hist.apply({'op': 'approve', 'pr': pr, 'user': u})
        for _ in range(2):
            hist.apply({'op': 'pr_event', 'pr': pr})
            hist.apply({'op': 'report_pr', 'pr': pr, 'state': 'SUCCESSFUL'})
    low = set(b.split('/')[1] for b in chain[i:j])
    bad = ('FAILED', 'INPROGRESS', None)[data.draw(st.integers(0, 2),
                                                   label='ob_state')]
    last = None
    for q in sorted(n for n in w.heads() if n.startswith('q/')):
        ver = q.split('/')[3] if q.startswith('q/w/') else q.split('/')[1]
        state = bad if ver in low else 'SUCCESSFUL'
        if state:
            hist.apply({'op': 'report', 'sel': {'ref': q}, 'state': state})
        if not q.startswith('q/w/'):
            last = q
    if last:
        hist.apply({'op': 'commit_event', 'sel': {'ref': last}})
    hist.flags.add('c03_older_blocked_prelude')
    return True


def prelude(data, hist, evaluate=True):
    w = hist.world
    if evaluate and w.mode == 'queue' and data.draw(
            st.integers(0, 3), label='older_blocked') == 0:
        if older_blocked_prelude(data, hist):
            return
    if evaluate and w.mode == 'skipqueue':
        which = data.draw(st.integers(0, 2), label='stale_prelude')
        if which == 1 and stale_prelude(data, hist):
            return
        if which == 2 and manual_mid_prelude(data, hist):
            return
    dests = sorted(n for n in w.heads() if is_dest(n))
    k = data.draw(st.integers(1, 4), label='k')
    opened = []
    for i in range(k):
        dst = dests[data.draw(st.integers(0, len(dests) - 1), label='dst')]
        n = len(w.prs) + 1
        src = '%s/TEST-%d-f%d' % (PREFIXES[i % 3], n, n)
        hist.apply({'op': 'open_pr', 'src': src, 'dst': dst,
                    'author': AUTHOR, 'base_back': 0})
        pr = max(w.prs) if w.prs else None
        if pr is None or w.prs[pr]['src'] != src:
            continue
        opened.append(pr)
    # the order of entry into the queue is generated too (it need not be the
    # order of creation)
    order = data.draw(st.permutations(opened), label='queue_order')
    for pr in order:
        hist.apply({'op': 'pr_event', 'pr': pr})
        for u in (PEER1, PEER2)[:int(w.settings_dict.get(
                'required_peer_approvals', 1))]:
            hist.apply({'op': 'approve', 'pr': pr, 'user': u})
        if w.settings_dict.get('need_author_approval'):
            hist.apply({'op': 'approve', 'pr': pr, 'user': AUTHOR})
        hist.apply({'op': 'report_pr', 'pr': pr, 'state': 'SUCCESSFUL'})
        hist.apply({'op': 'pr_event', 'pr': pr})
    qs = sorted(n for n in w.heads() if n.startswith('q/'))
    if qs and evaluate:
        pool = ('SUCCESSFUL', 'SUCCESSFUL', 'SUCCESSFUL') + STATES
        states = [pool[data.draw(st.integers(0, len(pool) - 1), label='qs')]
                  for _ in qs]
        hist.apply({'op': 'report_queue', 'states': states})
        q = qs[data.draw(st.integers(0, len(qs) - 1), label='qref')]
        hist.apply({'op': 'commit_event', 'sel': {'ref': q}})


def nontrivial(h):
    return 'c03_nontrivial' in h.flags


def classes(h):
    out = ['mode_' + h.world.mode]
    if h.world.shape.stabs:
        out.append('has_stabilization')
    for f in sorted(h.flags):
        out.append('flag_' + f)
    return out


WEIGHTS = {'merge_queue': 25, 'report': 10, 'report_queue': 8, 'admin': 2,
           'comment': 2, 'approve': 6, 'pr_event': 12}


def corpus_cases():
    """Queue shapes on which the C05 sweep once disagreed with its oracle
    (corpus/c05_disagreements.json), mapped onto World shapes."""
    import json
    import os
    path = os.path.join(os.path.dirname(os.path.dirname(os.path.dirname(
        os.path.abspath(__file__)))), 'corpus', 'c05_disagreements.json')
    if not os.path.exists(path):
        return []
    out = []
    for st_ in json.load(open(path))['structures']:
        spec = st_['spec']
        if spec.get('hotfixes'):
            continue
        try:
            devs = [[int(x) for x in d.split('.')] for d in spec['devs']]
        except ValueError:
            continue
        if any(len(d) != 2 for d in devs):
            continue
        stabs = [[int(x) for x in s_.split('.')[:2]] for s_ in spec['stabs']]
        if len(devs) + len(stabs) > 5:
            continue

        def mapname(n):
            if n.startswith('stabilization/'):
                a, b, _ = n.split('/')[1].split('.')
                return 'stabilization/%s.%s.4' % (a, b)
            return n

        def mapver(v):
            parts = v.split('.')
            return '.'.join(parts[:2] + ['4']) if len(parts) == 3 else v
        for c in st_['cases']:
            out.append({'devs': devs, 'stabs': stabs,
                        'prs': [mapname(d) for _, d in spec['prs']],
                        'failed': [[pr, mapver(v)] for pr, v in c['failed']]})
    return out


def corpus_shard(ctx, shard_no, acc, monitors_fn=None, per_shard=3,
                 nontrivial_fn=None):
    """Replay corpus queue shapes on real Bert-E + real git."""
    monitors_fn = monitors_fn or monitors
    from vf.cli import jhash
    from vf.sim.driver import History
    from vf.sim.explore import ddmin
    cases = corpus_cases()
    if ctx['tier'] == 'quick':
        # a seed-dependent slice: 3 cases per shard
        n = ctx['nproc']
        start = (ctx['seed'] * 7) % max(1, len(cases))
        cases = [cases[(start + shard_no + k * n) % len(cases)]
                 for k in range(per_shard)] if cases else []
    else:
        cases = cases[shard_no::ctx['nproc']]
    sc = Scratch()
    try:
        for c in cases:
            params = {'devs': c['devs'], 'stabs': c['stabs'],
                      'hotfix': 'none', 'mode': 'queue', 'options': [],
                      'settings': {
                          'always_create_integration_pull_requests': False,
                          'required_peer_approvals': 1}}
            hist = History(sc, params, monitors_fn())
            try:
                for i, dst in enumerate(c['prs']):
                    hist.apply({'op': 'open_pr', 'dst': dst, 'author': AUTHOR,
                                'src': '%s/TEST-%d-c%d' % (PREFIXES[i % 3],
                                                           i + 1, i + 1),
                                'base_back': 0})
                for pr in sorted(hist.world.prs):
                    hist.apply({'op': 'pr_event', 'pr': pr})
                    hist.apply({'op': 'approve', 'pr': pr, 'user': PEER1})
                    hist.apply({'op': 'report_pr', 'pr': pr,
                                'state': 'SUCCESSFUL'})
                    hist.apply({'op': 'pr_event', 'pr': pr})
                heads = hist.world.heads()
                failed = set((p, v) for p, v in c['failed'])
                for name in sorted(heads):
                    if name.startswith('q/w/'):
                        _, _, pr, ver = name.split('/')[:4]
                        hist.apply({'op': 'report', 'sel': {'ref': name},
                                    'state': 'FAILED' if (int(pr), ver)
                                    in failed else 'SUCCESSFUL'})
                qs = sorted(n for n in heads if n.startswith('q/') and
                            not n.startswith('q/w/'))
                if qs:
                    hist.apply({'op': 'commit_event',
                                'sel': {'ref': qs[-1]}})
                acc.case(jhash(c), nontrivial_fn(hist) if nontrivial_fn
                         else 'c03_nontrivial' in hist.flags,
                         sample={'corpus_case': c,
                                 'job_statuses': hist.job_statuses},
                         classes=['corpus_replayed_on_real_git'])
                for k, v in hist.stats.items():
                    acc.classes[k] += v
                if hist.violations:
                    msg, sig = hist.violations[0]
                    acc.violation(msg, hist.case(), sig)
            finally:
                hist.close()
    finally:
        sc.cleanup()


def any_shard(ctx, job, acc):
    kind, i = job
    if kind == 'corpus':
        corpus_shard(ctx, i, acc)
    else:
        shard(ctx, i, acc)


def shard(ctx, i, acc):
    n = 8 if ctx['tier'] == 'quick' else 100
    explore(ctx, i, acc, monitors, n, steps=(14, 34), weights=WEIGHTS,
            params_kw={'modes': ('queue', 'queue', 'skipqueue'),
                       'stab_bias': True},
            nontrivial=nontrivial, classes=classes, prelude=prelude)


def run(ctx):
    jobs = [('hist', i) for i in range(ctx['nproc'])] + \
        [('corpus', i) for i in range(ctx['nproc'])]
    return run_shards(__name__, 'any_shard', ctx, jobs)


def replay(ctx, case, acc):
    sc = Scratch()
    try:
        viols, _ = replay_case(sc, case, monitors())
        for msg, sig in viols:
            acc.violation(msg, case, sig)
    finally:
        sc.cleanup()
