"""C15: reset never silently discards manual work and only touches its own
pull request."""
from hypothesis import strategies as st

from vf.cli import run_shards
from vf.sim import monitors as M
from vf.sim.driver import replay_case, PREFIXES, is_dest
from vf.sim.explore import explore
from vf.sim.world import Scratch, AUTHOR, AUTHOR2, PEER1

LEVEL = 'exploration'
RULE = ('Histories built around one pull request with >= 2 targets plus 1-2 '
        'other pull requests: after its integration branches exist, a '
        'generated sequence (2-8 steps, any order) of source add / amend / '
        'rebase / reset / merge-of-destination pushes, third-party moves of '
        'a destination, 0-2 manual commits per integration branch (plain '
        'commit on top of w/, merge of a side branch, merge of the source '
        'branch by hand = the documented conflict-resolution procedure), '
        'manual commits on ANOTHER pull request\'s w/ branch, and '
        're-evaluations; then `reset` or `force_reset` by the author and two '
        'evaluations. Oracle from the harness\' own record of which commits '
        'it made on which w/ branch: reset must end LossyResetWarning with '
        'an empty ref journal iff such a commit is still on a w/ branch of '
        'the PR; with pristine w/ branches (only robot commits and commits '
        'of the current source) it must complete; force_reset completes; a '
        'completed reset changes only w/<v>/<this source> refs, declines '
        'only its own integration PRs, and the next evaluation that reaches '
        'the gates recreates them. Non-trivial = a reset executed while '
        'manual work was present; distinct by hash of (params, steps).')
ASSUMPTIONS = ['in-tree mock git host; cells that are neither lossy nor '
               'pristine (e.g. rebased source) are EITHER and counted']


def monitors():
    return [M.C15Reset(), M.C15Rebuild(), M.WOwnership('C15')]


def body(data, hist):
    w = hist.world

    def pick(seq, label):
        return seq[data.draw(st.integers(0, len(seq) - 1), label=label)]
    pair_ = None
    if data.draw(st.integers(0, 2), label='same_commit_pair') == 0:
        # a development branch that was just opened from the previous one:
        # two adjacent destinations at the same commit, so that the later
        # integration branch is a fast-forward of the earlier one
        import re
        devs_ = [n for n in w.chain if n in w.heads() and
                 re.match(r'development/\d+\.\d+$', n)]
        if devs_:
            b_ = pick(devs_, 'scp')
            ma_, mi_ = b_.split('/')[1].split('.')
            new_ = 'development/%s.%d' % (ma_, int(mi_) + 1)
            if new_ not in w.heads():
                hist.apply({'op': 'admin', 'kind': 'create_branch',
                            'args': {'branch': new_}})
                hist.apply({'op': 'drain'})
                if new_ in w.heads():
                    hist.flags.add('c15_same_commit_pair')
                    pair_ = (b_, new_)
    dests = sorted(n for n in w.heads() if is_dest(n) and
                   not n.startswith('hotfix/'))
    # target PR on a destination that has later targets
    first = [d for d in dests if d != w.chain[-1]] or dests
    if pair_:
        # ... and that lies below the pair, so that both are targets
        below_ = [n for n in w.chain[:w.chain.index(pair_[0])]
                  if n in w.heads()]
        first = below_ or first
    dstA = pick(first, 'dstA')
    hist.apply({'op': 'open_pr', 'src': 'bugfix/TEST-1-f1', 'dst': dstA,
                'author': AUTHOR, 'base_back': pick((0, 0, 1), 'bb')})
    nB = data.draw(st.integers(1, 2), label='nB')
    for i in range(nB):
        hist.apply({'op': 'open_pr', 'src': '%s/TEST-%d-g%d' % (
            PREFIXES[i % 3], i + 2, i + 2), 'dst': pick(dests, 'dstB'),
            'author': AUTHOR2, 'base_back': 0})
    prs = sorted(w.prs)
    if not prs:
        return
    A = prs[0]
    others = prs[1:]
    hist.apply({'op': 'approve', 'pr': A, 'user': AUTHOR})
    hist.apply({'op': 'pr_event', 'pr': A})
    for b in others:
        hist.apply({'op': 'approve', 'pr': b, 'user': AUTHOR2})
        hist.apply({'op': 'pr_event', 'pr': b})
    n = data.draw(st.integers(2, 8), label='n')
    short_ = False
    if pair_ and data.draw(st.integers(0, 1), label='pair_direct'):
        # manual work directly on the integration branch that is a plain
        # fast-forward of the previous one, then the command
        hist.apply({'op': 'manual', 'pr': A, 'w': 0, 'kind': 'commit',
                    'wname': 'w/%s/%s' % (pair_[1].split('/')[1],
                                          w.prs[A]['src'])})
        hist.flags.add('c15_manual_on_fast_forward_w')
        n = 0
        short_ = True
    for _ in range(n):
        k = data.draw(st.integers(0, 11), label='k')
        if k <= 2:
            hist.apply({'op': 'push_src', 'pr': A, 'kind': pick(
                ('add', 'amend', 'rebase', 'reset', 'merge_dst'), 'kind')})
        elif k <= 6:
            hist.apply({'op': 'manual', 'pr': A,
                        'w': data.draw(st.integers(0, 3), label='w'),
                        'kind': pick(('commit', 'merge', 'merge_src'),
                                     'mkind')})
        elif k == 7 and others:
            hist.apply({'op': 'manual', 'pr': pick(others, 'ob'),
                        'w': data.draw(st.integers(0, 3), label='w'),
                        'kind': 'commit'})
        elif k == 8:
            hist.apply({'op': 'move_dst', 'branch': pick(dests, 'md')})
        elif k == 9 and others:
            b = pick(others, 'ob')
            hist.apply({'op': 'approve', 'pr': b, 'user': PEER1})
            hist.apply({'op': 'report_pr', 'pr': b, 'state': 'SUCCESSFUL'})
            hist.apply({'op': 'pr_event', 'pr': b})
        else:
            hist.apply({'op': 'pr_event', 'pr': A})
        if hist.violations:
            return
    # final phase: the states in which the scan of the integration branches
    # is most delicate are reached on purpose, in generated order: fresh
    # manual work, and a destination (or the source) that moved after the
    # integration branches were last updated
    tail = data.draw(st.lists(st.sampled_from(
        ('manual', 'move_dst', 'move_own_dst', 'push_src', 'evaluate')),
        max_size=3), label='tail')
    if short_:
        tail = []
    for t in tail:
        if t == 'manual':
            hist.apply({'op': 'manual', 'pr': A,
                        'w': data.draw(st.integers(0, 3), label='tw'),
                        'kind': pick(('commit', 'merge', 'merge_src'),
                                     'tmk')})
        elif t == 'move_dst':
            hist.apply({'op': 'move_dst', 'branch': pick(dests, 'tmd')})
        elif t == 'move_own_dst':
            hist.apply({'op': 'move_dst', 'branch': dstA})
        elif t == 'push_src':
            hist.apply({'op': 'push_src', 'pr': A, 'kind': pick(
                ('add', 'amend', 'rebase'), 'tpk')})
        else:
            hist.apply({'op': 'pr_event', 'pr': A})
        if hist.violations:
            return
    cmd = pick(('@robot reset', '@robot reset', '@robot force_reset',
                '/reset'), 'cmd')
    hist.apply({'op': 'comment', 'pr': A, 'user': AUTHOR, 'text': cmd})
    if others and data.draw(st.integers(0, 2), label='race_w') == 0:
        # while the reset runs, the author of another pull request publishes
        # a hand-made integration branch: it is not this pull request's
        ev = {'op': 'pr_event', 'pr': A}
        info = hist.dry_run(ev)
        from vf.checks.c08 import NET_RE
        other_ = pick(others, 'rw_pr')
        for k in range(len(info['pushes']) if info else 0):
            hist.apply({'op': 'placed', 'job': ev, 'push': k, 'action': {
                'kind': 'new_w', 'pr': other_}})
        # ... and before each command that asks the remote what exists
        for ci in [ci for ci, c in enumerate(info['cmds'] if info else [])
                   if NET_RE.match(c)][-6:]:
            hist.apply({'op': 'placed', 'job': ev, 'cmd': ci, 'action': {
                'kind': 'new_w', 'pr': other_}})
        hist.flags.add('c15_reset_raced_by_hand_made_w')
        if hist.violations:
            return
    hist.apply({'op': 'pr_event', 'pr': A})
    if hist.violations:
        return
    if data.draw(st.integers(0, 3), label='twice_in_a_row') == 0:
        # the same command again, right after the robot's answer (double
        # post): executed once more, then the next evaluation rebuilds
        hist.apply({'op': 'comment', 'pr': A, 'user': AUTHOR, 'text': cmd})
        hist.apply({'op': 'pr_event', 'pr': A})
        hist.flags.add('c15_command_twice_in_a_row')
        if hist.violations:
            return
    hist.apply({'op': 'pr_event', 'pr': A})
    if data.draw(st.integers(0, 2), label='again') == 0 and \
            not hist.violations:
        hist.apply({'op': 'manual', 'pr': A, 'w': 0, 'kind': pick(
            ('commit', 'merge'), 'mk2')})
        hist.apply({'op': 'comment', 'pr': A, 'user': AUTHOR,
                    'text': '@robot reset'})
        hist.apply({'op': 'pr_event', 'pr': A})
        hist.apply({'op': 'pr_event', 'pr': A})


def nontrivial(h):
    return 'c15_manual' in h.flags


def classes(h):
    return ['mode_' + h.world.mode] + ['flag_' + f for f in sorted(h.flags)]


def shard(ctx, i, acc):
    n = 6 if ctx['tier'] == 'quick' else 80
    explore(ctx, i, acc, monitors, n, nontrivial=nontrivial, classes=classes,
            body=body, inject=True,
            params_kw={'hotfix': False, 'extra_settings': {
                'always_create_integration_branches': True}})


def run(ctx):
    return run_shards(__name__, 'shard', ctx, list(range(ctx['nproc'])))


def replay(ctx, case, acc):
    sc = Scratch()
    try:
        viols, _ = replay_case(sc, case, monitors(), inject=True)
        for msg, sig in viols:
            acc.violation(msg, case, sig)
    finally:
        sc.cleanup()
