"""C02: a changeset lands on all of its targets or none, even across crashes
and rejected refs; recovery converges to the uninterrupted content."""
from hypothesis import strategies as st

from vf.cli import run_shards
from vf.sim import monitors as M
from vf.sim.driver import replay_case, draw_steps, is_dest
from vf.sim.explore import explore, sig_key
from vf.sim.faults import C02AllOrNone
from vf.sim.world import Scratch
from vf.checks import c03

LEVEL = 'fault_enumeration'
RULE = ('Generated histories (<= 3 PRs, approvals and green builds biased so '
        'that merges happen; queue, skip-queue and no-queue modes). For each '
        'selected job (every job whose dry run on a snapshot performs a '
        'remote-mutating operation; capped per history in the quick tier) '
        'the faults are enumerated from that dry run: crash before and after '
        'each remote-mutating operation k (each `git push` command line and '
        'each add_comment / create_pull_request / decline / set_bot_status / '
        'set_build_status host call; after a crash every later operation of '
        'the job fails), and for every ref Bert-E updated in the dry run, '
        'that single ref rejected by the remote\'s update hook once and '
        'persistently. Each fault is executed from the same snapshot on the '
        'real code. Oracle: after every ref transaction of the faulty job '
        'and of the recovery, each PR\'s source tip is an ancestor of all of '
        'its targets or of none, and the C01 chain holds; then a fresh '
        'Bert-E on the same HOME gets the event again (rebuild-queues if it '
        'reports the queues out of order), CI is replayed by a deterministic '
        'policy keyed by the tree id of the commit until a fixpoint, and the '
        'tree id of every destination branch must equal that of the '
        'uninterrupted run driven by the same policy. Non-trivial = a fault '
        'placed in a job that, uninterrupted, moved a destination branch or '
        'changed the queue; distinct by hash of (params, steps).')
ASSUMPTIONS = ['git\'s own ref transaction is atomic (observed through the '
               'reference-transaction hook)', 'in-tree mock git host',
               'a persistently rejected ref is released before recovery']

WEIGHTS = {'advance': 30, 'merge_queue': 22, 'open_pr': 10, 'pr_event': 6,
           'commit_event': 4, 'comment': 1, 'admin': 3, 'manual': 0,
           'move_dst': 0, 'report': 2, 'push_src': 3, 'decline': 1,
           'delete_comment': 0, 'request_changes': 0, 'unapprove': 0}


def monitors():
    return [C02AllOrNone()]


def fault_list(info):
    faults = []
    nops = len(info['ops'])
    for k in range(nops):
        faults.append({'kind': 'crash_before', 'op': k})
        faults.append({'kind': 'crash_after', 'op': k})
    refs = sorted(set(r for r in info['moved'] if r.startswith('refs/')))
    for r in refs:
        faults.append({'kind': 'reject', 'ref': r, 'once': True})
        faults.append({'kind': 'reject', 'ref': r, 'once': False})
    return faults


def fault_job(data, hist, step, max_faults, force=False):
    """Enumerate (or sample) the faults of one job; returns True if the job
    was taken."""
    info = hist.dry_run(step)
    interesting = info and info['ops'] and any(
        r.startswith('refs/heads/') for r in info['moved'])
    dest_moved = info and any(
        is_dest(r[len('refs/heads/'):]) for r in info['moved']
        if r.startswith('refs/heads/'))
    take = dest_moved or (interesting and (force or data.draw(
        st.integers(0, 3), label='take') == 0))
    if not take:
        return False
    hist.flags.add('c02_faulted_job')
    if dest_moved:
        hist.flags.add('c02_faulted_merging_job')
    faults = fault_list(info)
    if len(faults) > max_faults:
        core = [f for f in faults if f['kind'] == 'reject' and is_dest(
            f['ref'][len('refs/heads/'):]) and not f['once']]
        rest = [f for f in faults if f not in core]
        k = max(1, max_faults - len(core))
        idx = data.draw(st.lists(
            st.integers(0, len(rest) - 1), min_size=min(k, len(rest)),
            max_size=min(k, len(rest)), unique=True), label='faults')
        faults = core + [rest[i] for i in sorted(idx)]
    policy = data.draw(st.integers(0, 3), label='policy')
    for f in faults:
        hist.apply({'op': 'fault', 'job': step, 'fault': f,
                    'policy': policy})
        if hist.violations:
            break
    return True


def new_target_prelude(data, hist, max_faults):
    """A pull request whose integration branches exist gets a new, later
    target (a new development branch is created) and a new commit: the next
    evaluation updates existing w/ branches AND creates a new one - the job
    whose pushes are the most delicate to interrupt."""
    from vf.sim.world import AUTHOR, PEER1
    w = hist.world
    chain = [n for n in w.chain if n in w.heads()]
    if len(chain) < 2:
        return
    hist.apply({'op': 'open_pr', 'src': 'feature/TEST-1-nt', 'dst': chain[0],
                'author': AUTHOR, 'base_back': 0})
    if not w.prs:
        return
    p = max(w.prs)
    hist.apply({'op': 'approve', 'pr': p, 'user': PEER1})
    hist.apply({'op': 'pr_event', 'pr': p})
    nb = ('development/11.0', 'development/10.1', 'development/12.0')[
        data.draw(st.integers(0, 2), label='newdev')]
    hist.apply({'op': 'admin', 'kind': 'create_branch',
                'args': {'branch': nb}})
    hist.apply({'op': 'drain'})
    hist.apply({'op': 'push_src', 'pr': p, 'kind': 'add'})
    hist.flags.add('c02_new_target_prelude')
    step = {'op': 'pr_event', 'pr': p}
    fault_job(data, hist, step, max(max_faults, 8), force=True)
    if not hist.violations:
        hist.apply(step)


def queued_then_new_branch(data, hist, max_faults):
    """Pull requests are queued, then a new newest development branch is
    created: the create-branch job publishes the branch and then rebuilds the
    queues - interrupted in between, the old queues no longer cover the
    cascade."""
    from vf.checks import c03
    if hist.world.mode == 'noqueue':
        return
    c03.prelude(data, hist, evaluate=False)
    nb = ('development/11.0', 'development/12.0')[
        data.draw(st.integers(0, 1), label='newdev2')]
    step = {'op': 'admin', 'kind': 'create_branch', 'args': {'branch': nb}}
    hist.flags.add('c02_queued_then_new_branch')
    fault_job(data, hist, step, max(max_faults, 8), force=True)
    if not hist.violations:
        hist.apply(step)
        hist.apply({'op': 'drain'})


def body_factory(tier):
    max_jobs = 2 if tier == 'quick' else 4
    max_faults = 5 if tier == 'quick' else 10 ** 6

    def body(data, hist):
        n = data.draw(st.integers(8, 22), label='nsteps')
        done = 0
        stop = False
        pk = data.draw(st.integers(0, 5), label='new_target')
        if pk in (0, 1):
            new_target_prelude(data, hist, max_faults)
            if hist.violations:
                return
        elif pk == 2:
            queued_then_new_branch(data, hist, max_faults)
            if hist.violations:
                return
        elif pk in (3, 4) and hist.world.mode == 'queue':
            # fault-free moments count too: two queued pull requests with
            # overlapping targets, the older one not green where only it goes
            c03.older_blocked_prelude(data, hist)
            if hist.violations:
                return
        while len(hist.steps) < 400 and not stop:
            plain = sum(1 for s in hist.steps if s['op'] != 'fault')
            if plain >= n and done >= max_jobs:
                break
            if plain >= n + 25:
                break
            for step in draw_steps(data, hist, WEIGHTS, max_prs=3):
                if step['op'] in ('pr_event', 'commit_event', 'admin') and \
                        done < max_jobs:
                    info = hist.dry_run(step)
                    interesting = info and info['ops'] and any(
                        r.startswith('refs/heads/') for r in info['moved'])
                    dest_moved = info and any(
                        is_dest(r[len('refs/heads/'):])
                        for r in info['moved']
                        if r.startswith('refs/heads/'))
                    # prefer merging jobs; take queue pushes sometimes
                    take = dest_moved or (interesting and data.draw(
                        st.integers(0, 3), label='take') == 0)
                    if take:
                        done += 1
                        hist.flags.add('c02_faulted_job')
                        if dest_moved:
                            hist.flags.add('c02_faulted_merging_job')
                        faults = fault_list(info)
                        if len(faults) > max_faults:
                            # quick tier: every rejection of a destination
                            # ref (the core of the statement) plus a
                            # generated sample of the other placements
                            core = [f for f in faults
                                    if f['kind'] == 'reject' and is_dest(
                                        f['ref'][len('refs/heads/'):])
                                    and not f['once']]
                            rest = [f for f in faults if f not in core]
                            k = max(1, max_faults - len(core))
                            idx = data.draw(st.lists(
                                st.integers(0, len(rest) - 1),
                                min_size=min(k, len(rest)),
                                max_size=min(k, len(rest)),
                                unique=True), label='faults')
                            faults = core + [rest[i] for i in sorted(idx)]
                        policy = data.draw(st.integers(0, 3),
                                           label='policy')
                        for f in faults:
                            hist.apply({'op': 'fault', 'job': step,
                                        'fault': f, 'policy': policy})
                            if hist.violations:
                                stop = True
                                break
                        if stop:
                            break
                hist.apply(step)
                if step['op'] == 'admin':
                    hist.apply({'op': 'drain'})
                if hist.violations:
                    stop = True
                    break
    return body


def nontrivial(h):
    return 'c02_faulted_merging_job' in h.flags


def classes(h):
    return ['mode_' + h.world.mode] + ['flag_' + f for f in sorted(h.flags)]


def shard(ctx, i, acc):
    n = 2 if ctx['tier'] == 'quick' else 3
    explore(ctx, i, acc, monitors, n, nontrivial=nontrivial, classes=classes,
            body=body_factory(ctx['tier']), inject=True, max_prs=3,
            params_kw={'extra_settings': {'required_peer_approvals': 1,
                                          'need_author_approval': False}})


def run(ctx):
    return run_shards(__name__, 'shard', ctx, list(range(ctx['nproc'])))


def replay(ctx, case, acc):
    sc = Scratch()
    try:
        viols, _ = replay_case(sc, case, monitors(), inject=True)
        for msg, sig in viols:
            acc.violation(msg, case, sig)
    finally:
        sc.cleanup()
