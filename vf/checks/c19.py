"""C19: integration branches / pull requests stay one-to-one with their PR;
child and commit events are handled as the parent's; decline and merge clean
up exactly what belongs to the PR."""
from hypothesis import strategies as st

from vf.cli import run_shards
from vf.sim import monitors as M
from vf.sim.driver import replay_case, draw_steps, is_dest
from vf.sim.explore import explore, sig_key
from vf.sim.world import Scratch, ROBOT

LEVEL = 'exploration'
RULE = ('Histories with <= 3 pull requests on overlapping cascades; PR events '
        'on parents and on integration (child) PRs, commit events on source, '
        'w/ and q/ tips in generated order and multiplicity; all four '
        'combinations of always_create_integration_{pull_requests,branches}; '
        'create_pull_requests / create_integration_branches comments; then '
        'decline or merge. Oracle after every job: at most one OPEN '
        'robot-authored PR per (w/<v>/<src>, target), titled INTEGRATION '
        '[PR#<id> > <dst>]; w/ deletions and child declines only for the '
        'job\'s own PR (or PRs merged by the job); decline removes all of its '
        'w/ branches and open children; merge removes its w/ branches; twin '
        'runs from one snapshot: event on a child PR / on a w/ or source '
        'commit leaves the same refs, PR states and comments as the event on '
        'the parent. Non-trivial = history with >= 1 open integration PR and '
        'a twin run or a decline/merge cleanup; distinct by hash of (params, '
        'steps).')
ASSUMPTIONS = ['in-tree mock git host (child PRs of merged parents stay OPEN '
               'on the mock once their w/ branch is gone: not judged)']

WEIGHTS = {'pr_event': 22, 'commit_event': 18, 'advance': 14,
           'merge_queue': 8, 'comment': 3, 'decline': 4, 'admin': 1,
           'report': 2, 'manual': 0, 'move_dst': 1, 'push_src': 4}


TITLES = ('title', 'Follow-up of PR 1: second fix', 'Bump to 2.0',
          'fix 3 things (see #2)', 'TEST-1 fix')


def monitors():
    return [M.C19OneToOne(), M.WOwnership('C19')]


def body(data, hist):
    known = set()
    n = data.draw(st.integers(10, 30), label='nsteps')
    stop = False
    twins = 0
    while len(hist.steps) < n and not stop:
        steps_ = draw_steps(data, hist, WEIGHTS, max_prs=3)
        prs_ = sorted(hist.world.prs)
        k_ = data.draw(st.integers(0, 11), label='c19macro') if prs_ else 9
        if k_ == 0:
            # an integration branch disappears while its PR is open
            pr_ = prs_[data.draw(st.integers(0, len(prs_) - 1), label='dw')]
            steps_ = [{'op': 'delete_w', 'pr': pr_,
                       'w': data.draw(st.integers(0, 3), label='dwi')},
                      {'op': 'pr_event', 'pr': pr_},
                      {'op': 'pr_event', 'pr': pr_}]
            hist.flags.add('c19_w_deleted_by_hand')
        elif k_ == 1 and hist.world.mode != 'noqueue':
            # partial merge: the source moves after the PR was queued
            from vf.sim.world import PEER1, PEER2
            pr_ = prs_[data.draw(st.integers(0, len(prs_) - 1), label='pm')]
            au_ = hist.world.prs[pr_]['author']
            steps_ = [{'op': 'approve', 'pr': pr_, 'user': u}
                      for u in (PEER1, PEER2, au_)]
            steps_ += [{'op': 'pr_event', 'pr': pr_},
                       {'op': 'report_pr', 'pr': pr_, 'state': 'SUCCESSFUL'},
                       {'op': 'pr_event', 'pr': pr_},
                       {'op': 'push_src', 'pr': pr_, 'kind': 'add'},
                       {'op': 'report_queue', 'states': ['SUCCESSFUL']},
                       {'op': 'commit_event', 'sel': {
                           'ref': 'q/' + hist.world.prs[pr_]['dst'].split(
                               '/')[1]}},
                       {'op': 'pr_event', 'pr': pr_},
                       {'op': 'pr_event', 'pr': pr_}]
            hist.flags.add('c19_partial_merge_macro')
        elif k_ == 2 and len(hist.world.prs) < 4:
            # everything is ready before the robot sees the pull request for
            # the first time: created, integrated and merged (or queued) by
            # one job, then the usual follow-up events
            from vf.sim.world import PEER1, PEER2, AUTHOR, ADMIN
            dests_ = sorted(n_ for n_ in hist.world.heads() if is_dest(n_))
            if dests_:
                pid_ = max([p[0] for p in hist.world.all_prs()] or [0]) + 1
                src_ = 'bugfix/TEST-%d-onestep' % (40 + len(hist.steps))
                steps_ = [{'op': 'open_pr', 'src': src_, 'dst': dests_[
                    data.draw(st.integers(0, len(dests_) - 1), label='osd')],
                    'author': AUTHOR, 'base_back': 0}]
                steps_ += [{'op': 'approve', 'pr': pid_, 'user': u}
                           for u in (PEER1, PEER2, AUTHOR)]
                steps_ += [{'op': 'comment', 'pr': pid_, 'user': ADMIN,
                            'text': '@robot bypass_build_status'},
                           {'op': 'pr_event', 'pr': pid_},
                           {'op': 'pr_event', 'pr': pid_}]
                hist.flags.add('c19_one_step_macro')
        elif k_ == 3:
            # integration pull requests asked for by the per-PR option (the
            # only way to get them when the setting is off), then an event
            # on one of them
            pr_ = prs_[data.draw(st.integers(0, len(prs_) - 1), label='cp')]
            hist.apply({'op': 'comment', 'pr': pr_,
                        'user': hist.world.prs[pr_]['author'],
                        'text': '@robot create_pull_requests'})
            hist.apply({'op': 'pr_event', 'pr': pr_})
            src_ = hist.world.prs[pr_]['src']
            kids_ = [p[0] for p in hist.world.all_prs()
                     if p[1] == ROBOT and p[2].startswith('w/') and
                     p[2].split('/', 2)[2] == src_ and p[4] == 'OPEN']
            if kids_ and not hist.violations:
                kid_ = kids_[data.draw(st.integers(0, len(kids_) - 1),
                                       label='kid')]
                steps_ = [{'op': 'report_pr', 'pr': pr_,
                           'state': 'SUCCESSFUL'},
                          {'op': 'pr_event', 'pr': kid_},
                          {'op': 'pr_event', 'pr': kid_}]
                hist.flags.add('c19_children_by_option_macro')
        for step in steps_:
            if step['op'] == 'open_pr' and 'title' not in step:
                # titles are free text: numbers in them (another pull
                # request's id, a version) must not confuse the link between
                # an integration pull request and its parent
                step['title'] = TITLES[len(hist.steps) % len(TITLES)]
            w = hist.world
            twin = None
            if step['op'] == 'pr_event' and step['pr'] not in w.prs:
                # child PR event: find the parent
                for i, a, s, d, stt in w.all_prs():
                    if i == step['pr'] and a == ROBOT and s.startswith('w/'):
                        f = s.split('/', 2)[2]
                        par = [p for p, inf in w.prs.items()
                               if inf['src'] == f]
                        if par:
                            twin = {'op': 'pr_event', 'pr': min(par)}
            elif step['op'] == 'commit_event' and 'ref' in step['sel']:
                ref = step['sel']['ref']
                heads = w.heads()
                sha = heads.get(ref)
                same = [n_ for n_, s_ in heads.items() if s_ == sha]
                if sha and len(same) == 1 and not is_dest(ref) and \
                        not ref.startswith('q/'):
                    f = ref.split('/', 2)[2] if ref.startswith('w/') else ref
                    par = [p for p, inf in w.prs.items() if inf['src'] == f]
                    if par:
                        twin = {'op': 'pr_event', 'pr': min(par)}
            if twin:
                # the statement is about live pull requests: a commit event
                # for a declined / merged parent is (rightly) ignored
                states = {p[0]: p[4] for p in w.all_prs()}
                if states.get(twin['pr']) != 'OPEN' or \
                        w.pr_ctl(twin['pr']).status != 'OPEN':
                    twin = None
            if twin and twins < 6:
                twins += 1
                hist.flags.add('c19_twin')
                hist.apply({'op': 'twin', 'tag': 'C19', 'a': step,
                            'b': twin})
            hist.apply(step)
            if step['op'] == 'admin':
                hist.apply({'op': 'drain'})
            if hist.violations:
                stop = True
                break


def nontrivial(h):
    return 'c19_children' in h.flags and (
        'c19_twin' in h.flags or 'decline_cleanup' in h.flags or
        'merge_cleanup' in h.flags)


def classes(h):
    out = ['mode_' + h.world.mode] + ['flag_' + f for f in sorted(h.flags)]
    s = h.world.settings_dict
    out.append('always_prs_%s' % s.get(
        'always_create_integration_pull_requests', True))
    out.append('always_branches_%s' % s.get(
        'always_create_integration_branches', True))
    return out


def shard(ctx, i, acc):
    n = 6 if ctx['tier'] == 'quick' else 80
    # settings drawn per history by st_params: force the 4 combinations evenly
    combos = [(True, True), (True, False), (False, True), (False, False)]
    a, b = combos[i % 4]
    explore(ctx, i, acc, monitors, n, nontrivial=nontrivial, classes=classes,
            body=body, max_prs=3,
            params_kw={'extra_settings': {
                'always_create_integration_pull_requests': a,
                'always_create_integration_branches': b}, 'hotfix': False})


def run(ctx):
    return run_shards(__name__, 'shard', ctx, list(range(ctx['nproc'])))


def replay(ctx, case, acc):
    sc = Scratch()
    try:
        viols, _ = replay_case(sc, case, monitors())
        for msg, sig in viols:
            acc.violation(msg, case, sig)
    finally:
        sc.cleanup()
