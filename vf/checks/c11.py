"""C11 ticket gate: the real jira_checks(job) on a real PullRequestJob whose
source branch is a real FeatureBranch, whose cascade is a real finalized
BranchCascade (builder of C09) and whose Jira is a scripted JiraIssue class.

Oracle from the statement and the documented order of checks in USER_DOC.md
("Conditions to merge a pull request"): first failing check -> its own
exception class, otherwise pass.
"""
import collections
import hashlib
import re
from types import SimpleNamespace

from vf import stubs
from vf.cli import run_shards, HarnessError
from vf.checks import c09

LEVEL = 'exploration'
RULE = (
    'Part G (gate order), complete product: 10 source names from the feature '
    'grammar (TEST-1, lower-case test-1, other project OTHER-2, other '
    'prefix, ticket-like dependabot name; no ticket: plain, "TEST-", "-12", '
    '"TEST1", ticket not right after the prefix) x issue {absent(404), '
    '{Bug, Story, Epic} x every subset of {all expected versions, a wrong '
    'version, a suffixed version}} x settings {jira_keys [TEST] / [OTHER,'
    'TEST] / [], jira_email empty, jira_account_url empty} x prefixes '
    '{none, 3 types} x bypass_prefixes {[], [dependabot], [dependabot,'
    'feature]} x disable_version_checks x bypass source {none, admin comment'
    ' through the real handle_comments, pr_author_options, command line, '
    'admin comment bypassing ANOTHER check} x 5 cascades (quick: 1 of the 5 '
    'per case, rotating with the seed); for ticketless names additionally targets that '
    'accept ticketless pull requests {none, last only, all}. Part V (version'
    ' equality), complete product: every cascade of the C09 pool (distinct '
    'expected-version lists; quick: every 5th, offset by the seed) x every subset of a 6-version '
    'fixVersions universe {first expected, the other expected ones (or a '
    'neighbour version when there is only one), wrong version, suffixed, '
    'x.y.z.0, x.y.z.1} x source {TEST-1, test-1, feature/TEST-1} x '
    'disable_version_checks. Non-trivial = no bypass, Jira configured, the '
    'source names a ticket and the issue exists (>= 3 checks in play); '
    'distinct by the full input tuple.')
ASSUMPTIONS = [
    'Jira replaced in-process by a scripted JiraIssue class (404 or an issue '
    'with key, issuetype.name, fixVersions[].name); key lookup is case-'
    'insensitive like Jira; template rendering stubbed',
    'a ticket is KEY-digits right after "prefix/" (USER_DOC: "The ticket id '
    'must follow the prefix, for example feature/KEY-1234-xxx")',
    'no issue types configured (prefixes empty) = type check switched off',
    'EITHER cells (non-hotfix target only): x.y.z.0 in fixVersions. Hotfix '
    'versions x.y.z.n (n >= 1) in fixVersions count as suffixed versions of '
    'x.y.z and are ignored for a non-hotfix target',
    'allow_ticketless_pr is False on every branch class of this tree; the '
    'clause "mandatory as soon as one target does not accept ticketless pull'
    ' requests" is exercised by setting the attribute on the real target '
    'branch objects of the finalized cascade',
    'the issue returned by Jira carries the key that was asked for (moved '
    'issues are not modelled)',
]

SOURCES = (
    # name, has-ticket note
    'bugfix/TEST-1-x', 'bugfix/test-1-x', 'bugfix/OTHER-2-y',
    'feature/TEST-1-z', 'dependabot/lodash-4.17.13', 'bug/TEST-1-w',
    'bugfix/plainname', 'bugfix/TEST-', 'bugfix/-12', 'bugfix/TEST1',
    'bugfix/my.TEST-1',
)
N_TICKET = 6  # the first six name a ticket
TYPES = ('Bug', 'Story', 'Epic')
PREFIXES = {'Story': 'feature', 'Bug': 'bugfix', 'Improvement': 'improvement'}
CONFIGS = ('TEST', 'OTHER+TEST', 'nokeys', 'noemail', 'nourl')
# 'bug' and 'bugfix' are both registered prefixes and one is a string prefix
# of the other: the bypass must compare whole prefixes
BYPASS_PREFIXES = ((), ('dependabot',), ('dependabot', 'feature'), ('bug',),
                   ('bugfix',))
# 'author_second': the author is the second entry of pr_author_options and
# holds the bypass; 'other_author': somebody else, listed first, holds it and
# the author (listed after) holds another bypass only -> no bypass
BYPASS = ('none', 'comment', 'author', 'cmdline', 'other_option',
          'author_second', 'other_author')
TICKETLESS = ('none', 'last', 'all')

G_CASCADES = (
    (['development/4.0'], ['4.0.0'], 'development/4.0'),
    (['development/4.0', 'stabilization/4.0.1', 'development/4.1',
      'development/4', 'development/5.0', 'stabilization/5.0.2'],
     ['4.0.0', '5.0.0', 'v5.0.1', '4.1.2_rc1'], 'development/4.0'),
    (['development/4.0', 'stabilization/4.0.1', 'development/5.1'],
     ['4.0.0'], 'stabilization/4.0.1'),
    (['development/4.0', 'hotfix/4.0.0', 'development/10.0'],
     ['4.0.0', '4.0.0.1'], 'hotfix/4.0.0'),
    (['development/10', 'development/5.0'], ['10.3.0'], 'development/10'),
)


# --------------------------------------------------------------------------
# oracle
# --------------------------------------------------------------------------
_TICKET = re.compile(r'^([A-Za-z0-9_]+)-([0-9]+)')
_FOUR = re.compile(r'^\d+\.\d+\.\d+\.\d+$')
_THREE = re.compile(r'^\d+\.\d+\.\d+$')
_ZERO = re.compile(r'^\d+\.\d+\.\d+\.0$')


def ticket_of(src):
    prefix, _, label = src.partition('/')
    m = _TICKET.match(label)
    if not m:
        return prefix, None, None
    return prefix, m.group(1).upper(), m.group(0).upper()


def oracle(case, expected_versions):
    """-> (verdict, either) ; verdict = 'pass' or an exception class name,
    either = True when the version cell is left open by the statement."""
    if case['bypass'] in ('comment', 'author', 'cmdline', 'author_second'):
        return 'pass', False
    prefix, project, key = ticket_of(case['src'])
    if prefix in case['bypass_prefixes']:
        return 'pass', False
    cfg = case['config']
    keys = {'TEST': ['TEST'], 'OTHER+TEST': ['OTHER', 'TEST'],
            'nokeys': []}.get(cfg, ['TEST'])
    if cfg in ('nokeys', 'noemail', 'nourl'):
        return 'pass', False
    if key is None:
        if case.get('ticketless', 'none') == 'all':
            return 'pass', False
        return 'MissingJiraId', False
    if case['issue'] is None:
        return 'JiraIssueNotFound', False
    itype, versions = case['issue']
    if project not in keys:
        return 'IncorrectJiraProject', False
    if case['prefixes'] and itype not in PREFIXES:
        return 'IssueTypeNotSupported', False
    if case['dvc']:
        return 'pass', False
    exp = list(expected_versions)
    if len(exp) == 1 and _FOUR.match(exp[0]):
        # hotfix target: the hotfix version must be listed
        return ('pass' if exp[0] in versions else 'IncorrectFixVersion'), False
    if any(_ZERO.match(v) for v in versions):
        return 'either', True
    # suffixed versions (x.y.z_hf7, hotfix versions x.y.z.n) are ignored
    plain = set(v for v in versions if _THREE.match(v))
    return ('pass' if plain == set(exp) else 'IncorrectFixVersion'), False


# --------------------------------------------------------------------------
# scripted Jira
# --------------------------------------------------------------------------
class ScriptedJira:
    db = {}
    calls = []

    def __init__(self, account_url, issue_id, email, token):
        from jira.exceptions import JIRAError
        ScriptedJira.calls.append((account_url, issue_id, email, token))
        rec = ScriptedJira.db.get(str(issue_id).upper())
        if rec is None:
            raise JIRAError(status_code=404, text='Issue Does Not Exist')
        itype, versions = rec
        self.key = str(issue_id).upper()
        self.fields = SimpleNamespace(
            issuetype=SimpleNamespace(name=itype),
            fixVersions=[SimpleNamespace(name=v) for v in versions])


_state = {}


def setup_process():
    if _state:
        return
    import bert_e.workflow.gitwaterflow.jira as jmod
    from bert_e.workflow.gitwaterflow import branches as gwfb
    from bert_e.workflow import gitwaterflow as gwf
    import bert_e.exceptions as bexc
    stubs.stub_render()
    stubs.reset_cmdline_options()
    jmod.jira_api.JiraIssue = ScriptedJira
    _state.update(jmod=jmod, gwfb=gwfb, gwf=gwf, bexc=bexc)


def settings_for(case):
    over = {'jira_keys': ['TEST'], 'jira_email': 'bot@example.com',
            'jira_account_url': 'https://jira.example.com',
            'disable_version_checks': bool(case['dvc'])}
    cfg = case['config']
    if cfg == 'OTHER+TEST':
        over['jira_keys'] = ['OTHER', 'TEST']
    elif cfg == 'nokeys':
        over['jira_keys'] = []
    elif cfg == 'noemail':
        over['jira_email'] = ''
    elif cfg == 'nourl':
        over['jira_account_url'] = ''
    if case['prefixes']:
        over['prefixes'] = dict(PREFIXES)
    if case['bypass_prefixes']:
        over['bypass_prefixes'] = list(case['bypass_prefixes'])
    if case['bypass'] == 'author':
        over['pr_author_options'] = {stubs.AUTHOR: ['bypass_jira_check']}
    elif case['bypass'] == 'author_second':
        over['pr_author_options'] = collections.OrderedDict([
            ('somebody_else', ['bypass_build_status']),
            (stubs.AUTHOR, ['bypass_jira_check'])])
    elif case['bypass'] == 'other_author':
        over['pr_author_options'] = collections.OrderedDict([
            ('somebody_else', ['bypass_jira_check']),
            (stubs.AUTHOR, ['bypass_build_status'])])
    return stubs.load_settings(**over)


def evaluate(case, cascade):
    """Run the real gate; -> outcome string."""
    gwfb, gwf, jmod, bexc = (_state['gwfb'], _state['gwf'], _state['jmod'],
                             _state['bexc'])
    settings = settings_for(case)
    comments = []
    if case['bypass'] == 'comment':
        comments.append(stubs.FakeComment(
            stubs.ADMIN, '@%s bypass_jira_check' % stubs.ROBOT))
    elif case['bypass'] == 'other_option':
        comments.append(stubs.FakeComment(
            stubs.ADMIN, '@%s bypass_build_status' % stubs.ROBOT))
    if case['bypass'] == 'cmdline':
        stubs.set_cmdline_options(['bypass_jira_check'])
    try:
        pr = stubs.FakePR(src=case['src'], dst=case['cascade'][2],
                          comments=comments)
        job = stubs.make_job(settings, pr)
        gwf.handle_comments(job)
        job.git.src_branch = gwfb.branch_factory(c09._FAKE, case['src'])
        job.git.dst_branch = gwfb.branch_factory(c09._FAKE,
                                                 case['cascade'][2])
        job.git.cascade = cascade
        ScriptedJira.db = {}
        ScriptedJira.calls = []
        if case['issue'] is not None:
            _, _, key = ticket_of(case['src'])
            if key:
                ScriptedJira.db[key] = (case['issue'][0],
                                        list(case['issue'][1]))
        git_calls = c09.FakeRepo.calls
        try:
            jmod.jira_checks(job)
            got = 'pass'
        except bexc.TemplateException as e:
            got = type(e).__name__
        except Exception as e:  # an outcome, compared with the statement
            got = 'exc:%s' % type(e).__name__
        if c09.FakeRepo.calls != git_calls or pr.posted:
            got += '+repository-or-pull-request-touched'
    finally:
        if case['bypass'] == 'cmdline':
            stubs.reset_cmdline_options()
    return got


def build_cascade(spec, ticketless='none'):
    branches, tags, dst = spec
    c = c09.real_cascade(branches, tags, dst)
    if not c.dst_branches:
        raise HarnessError('cascade without target: %r' % (spec,))
    if any(b.allow_ticketless_pr for b in c.dst_branches):
        raise HarnessError('a branch class accepts ticketless pull requests: '
                           'update the oracle input of C11')
    if ticketless == 'last':
        c.dst_branches[-1].allow_ticketless_pr = True
    elif ticketless == 'all':
        for b in c.dst_branches:
            b.allow_ticketless_pr = True
    if ticketless == 'last' and len(c.dst_branches) == 1:
        return c, 'all'
    return c, ticketless


def check(case, cascade, acc, cls):
    want, either = oracle(case, cascade.target_versions)
    got = evaluate(case, cascade)
    _, _, key = ticket_of(case['src'])
    nontrivial = (case['bypass'] in ('none', 'other_option', 'other_author') and
                  case['config'] in ('TEST', 'OTHER+TEST') and
                  ticket_of(case['src'])[0] not in case['bypass_prefixes']
                  and key is not None and case['issue'] is not None)
    cls['want_' + want] += 1
    if either:
        cls['either_xyz0_in_fixversions'] += 1
        cls['either_got_' + got] += 1
    sample = None
    if acc.evaluations % 9973 == 0:
        sample = dict(case, expected_versions=list(cascade.target_versions),
                      outcome=got)
    key = int.from_bytes(hashlib.blake2b(
        repr(sorted(case.items())).encode(), digest_size=8).digest(), 'big')
    acc.case(key, nontrivial, sample=sample)
    ok = (got in ('pass', 'IncorrectFixVersion')) if either else got == want
    if not ok:
        sig = {'want': want, 'got': got}
        acc.violation(
            'ticket gate: source=%s issue=%s expected versions=%s settings='
            '{jira:%s prefixes:%s bypass_prefixes:%s disable_version_checks:'
            '%s} bypass=%s ticketless=%s: statement wants %s, code gave %s '
            '(Jira asked for %s)'
            % (case['src'], case['issue'], list(cascade.target_versions),
               case['config'], bool(case['prefixes']),
               list(case['bypass_prefixes']), case['dvc'], case['bypass'],
               case.get('ticketless', 'none'), want, got,
               [c[1] for c in ScriptedJira.calls]),
            case, sig)


def g_issues(tv):
    """Issue dimension of part G for expected versions tv."""
    yield None
    items = [list(tv), ['0.9.9'], [tv[0] + '_hf7']]
    for t in TYPES:
        for mask in range(8):
            vs = []
            for k in range(3):
                if mask >> k & 1:
                    vs.extend(items[k])
            yield (t, vs)


def v_universe(tv):
    tv = list(tv)
    if len(tv) == 1 and _FOUR.match(tv[0]):
        base = tv[0].rsplit('.', 1)[0]
        n = int(tv[0].rsplit('.', 1)[1])
        return [[tv[0]], ['%s.%d' % (base, n - 1)] if n > 1 else [base + '.7'],
                [base], ['0.9.9'], [tv[0] + '_rc1'], [base + '.0']]
    first = tv[0]
    if len(tv) > 1:
        second = tv[1:]
    else:
        a, b, c = first.split('.')
        second = ['%s.%s.%d' % (a, b, int(c) + 1)]
    return [[first], second, ['0.9.9'], [first + '_hf7'], [first + '.0'],
            [first + '.1']]


def shard_fn(ctx, shard, acc):
    from collections import Counter
    setup_process()
    cls = Counter()
    kind = shard[0]
    quick = ctx['tier'] != 'thorough'
    if kind == 'G':
        _, lo, step = shard
        idx = -1
        for si, src in enumerate(SOURCES):
            tls = ('none',) if si < N_TICKET else TICKETLESS
            for tl in tls:
                for cfg in CONFIGS:
                    for pf in (0, 1):
                        for bp in BYPASS_PREFIXES:
                            for dvc in (0, 1):
                                for by in BYPASS:
                                    idx += 1
                                    if idx % step != lo:
                                        continue
                                    cs = [(idx + ctx['seed']) % 5] if quick else range(5)
                                    for ci in cs:
                                        g_group(acc, cls, ci, dict(
                                            src=src, ticketless=tl,
                                            config=cfg, prefixes=pf,
                                            bypass_prefixes=list(bp),
                                            dvc=dvc, bypass=by), si)
    elif kind == 'V':
        _, lo, step = shard
        pool = c09.wellformed_pool()
        if quick:
            pool = pool[ctx['seed'] % 5::5]
        for pi in range(lo, len(pool), step):
            spec = pool[pi]
            for src in (SOURCES[0], SOURCES[1], SOURCES[3]):
                for dvc in (0, 1):
                    cascade, _ = build_cascade(spec)
                    uni = v_universe(cascade.target_versions)
                    for mask in range(64):
                        vs = []
                        for k in range(6):
                            if mask >> k & 1:
                                vs.extend(uni[k])
                        case = dict(src=src, ticketless='none', config='TEST',
                                    prefixes=1, bypass_prefixes=[], dvc=dvc,
                                    bypass='none', issue=('Bug', vs),
                                    cascade=[list(spec[0]), list(spec[1]),
                                             spec[2]])
                        check(case, cascade, acc, cls)
                        cls['cases_V'] += 1
    else:
        raise HarnessError('unknown shard %r' % (shard,))
    for k, n in cls.items():
        acc.cls(k, n)


def g_group(acc, cls, ci, base, si):
    spec = G_CASCADES[ci]
    cascade, tl = build_cascade(spec, base['ticketless'])
    base = dict(base, ticketless=tl,
                cascade=[list(spec[0]), list(spec[1]), spec[2]])
    if si < N_TICKET:
        issues = g_issues(cascade.target_versions)
    else:
        issues = [None, ('Bug', list(cascade.target_versions))]
    for issue in issues:
        check(dict(base, issue=issue), cascade, acc, cls)
        cls['cases_G'] += 1


def selftest():
    """Oracle against the two cells pinned by the statement text and by the
    USER_DOC example, and the name grammar against the documented example."""
    if ticket_of('feature/KEY-1234-xxx') != ('feature', 'KEY', 'KEY-1234'):
        raise HarnessError('ticket grammar self-test failed')
    for s in SOURCES[N_TICKET:]:
        if ticket_of(s)[2] is not None:
            raise HarnessError('ticket grammar self-test failed on %s' % s)
    base = dict(src='bugfix/TEST-1-x', config='TEST', prefixes=1,
                bypass_prefixes=[], dvc=0, bypass='none', ticketless='none')
    table = [
        (dict(base, issue=('Bug', ['4.0.1', '5.0.0'])), ['4.0.1', '5.0.0'],
         'pass'),
        (dict(base, issue=('Bug', ['4.0.1'])), ['4.0.1', '5.0.0'],
         'IncorrectFixVersion'),
        (dict(base, issue=('Bug', ['4.0.1', '5.0.0', '5.1.9_hf7'])),
         ['4.0.1', '5.0.0'], 'pass'),
        (dict(base, issue=('Bug', ['4.0.0.1', '9.9.9'])), ['4.0.0.1'],
         'pass'),
        (dict(base, issue=('Bug', ['4.0.0'])), ['4.0.0.1'],
         'IncorrectFixVersion'),
        (dict(base, issue=None), ['4.0.1'], 'JiraIssueNotFound'),
        (dict(base, src='bugfix/x', issue=None), ['4.0.1'], 'MissingJiraId'),
        (dict(base, src='bugfix/OTHER-2', issue=('Epic', [])), ['4.0.1'],
         'IncorrectJiraProject'),
        (dict(base, issue=('Epic', [])), ['4.0.1'], 'IssueTypeNotSupported'),
        (dict(base, bypass='comment', issue=None), ['4.0.1'], 'pass'),
    ]
    for case, tv, want in table:
        if oracle(case, tv)[0] != want:
            raise HarnessError('oracle self-test failed on %r' % (case,))


def run(ctx):
    selftest()
    c09.selftest()
    n = 64
    shards = [('V', i, n) for i in range(n)] + [('G', i, n) for i in range(n)]
    acc = run_shards(__name__, 'shard_fn', ctx, shards, ctx['nproc'])
    acc.extra['exhaustive'] = ctx['tier'] == 'thorough'
    acc.extra['cascade_pool'] = len(c09.wellformed_pool())
    return acc


def replay(ctx, case, acc):
    from collections import Counter
    selftest()
    setup_process()
    case = dict(case)
    case['bypass_prefixes'] = list(case['bypass_prefixes'])
    if case['issue'] is not None:
        case['issue'] = (case['issue'][0], list(case['issue'][1]))
    cascade, _ = build_cascade(tuple(case['cascade']), case['ticketless'])
    check(case, cascade, acc, Counter())
