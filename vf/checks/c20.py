"""C20: branch and queue admin jobs keep the repository well-formed or do
nothing."""
from hypothesis import strategies as st

from vf.cli import run_shards
from vf.sim import monitors as M
from vf.sim.driver import replay_case, draw_steps, is_dest
from vf.sim.explore import explore
from vf.sim.world import Scratch
from vf.checks import c03

LEVEL = 'exploration'
RULE = ('States reached by generated histories (cascades with stabilization, '
        'major-only and hotfix branches; queue, skip-queue and no-queue '
        'modes) with 0-3 queued pull requests (including hotfix queues); '
        'then generated admin jobs: create-branch over 21 candidate names '
        '(older / between / newer / existing / archived / non-destination) x '
        'branch_from {absent, a destination branch, any known commit}, '
        'delete-branch over every destination, rebuild / delete / '
        'force-merge queues, each followed by the jobs it enqueued; deletes '
        'followed by re-creates reach the archived case. Oracle: an '
        'independent well-formedness predicate (names, C01 chain from names, '
        'one stabilization per line with its development branch and micro = '
        'latest release + 1): success of create => no new problem, no archive '
        'tag of that version, not older than the newest development branch '
        'while PRs are queued; delete must refuse with queued PRs on the '
        'branch or a live stabilization, success => archive tag on the old '
        'tip and branch gone; JobFailure/NothingToDo => empty ref journal; '
        'rebuild/delete queues touch only q/*, rebuild re-submits exactly the '
        'queued PR ids, non-hotfix ones in order of entry. Non-trivial = an '
        'admin job run while >= 1 PR was queued, or a successful '
        'create/delete; distinct by hash of (params, steps).')
ASSUMPTIONS = ['in-tree mock git host; jobs that end with an unexpected '
               'exception are counted (c20_stat_job_error_*), not judged as '
               'refusals']

WEIGHTS = {'admin': 55, 'advance': 8, 'merge_queue': 2, 'open_pr': 5,
           'pr_event': 4, 'commit_event': 3, 'comment': 0, 'manual': 0,
           'report': 1, 'push_src': 1, 'move_dst': 1}


def monitors():
    return [M.C20Admin(), M.C08Passive()]


CYCLE_BRANCHES = ('development/9.5', 'development/11.0', 'development/4.4',
                  'development/5.2', 'development/10.1', 'development/5.0',
                  'development/4.2', 'stabilization/4.3.4',
                  'stabilization/10.0.4', 'hotfix/5.1.3', 'hotfix/10.0.3')


def prelude(data, hist):
    if data.draw(st.integers(0, 5), label='with_queue') > 0:
        c03.prelude(data, hist, evaluate=False)
    hot = [n for n in hist.world.hot if n in hist.world.heads()]
    if len(hot) >= 1 and hist.world.mode != 'noqueue' and data.draw(
            st.integers(0, 1), label='hotq'):
        # a pull request queued on each hotfix branch, then the delete-branch
        # job on one of them (each hotfix queue is its own queue)
        from vf.sim.world import AUTHOR, PEER1, PEER2
        for i, hb in enumerate(hot):
            hist.apply({'op': 'open_pr', 'src': 'bugfix/TEST-9%d-hf' % i,
                        'dst': hb, 'author': AUTHOR, 'base_back': 0})
            pr = max(hist.world.prs)
            for u in (PEER1, PEER2, AUTHOR):
                hist.apply({'op': 'approve', 'pr': pr, 'user': u})
            for _ in range(2):
                hist.apply({'op': 'pr_event', 'pr': pr})
                hist.apply({'op': 'report_pr', 'pr': pr,
                            'state': 'SUCCESSFUL'})
        for hb in reversed(hot):
            hist.apply({'op': 'admin', 'kind': 'delete_branch',
                        'args': {'branch': hb}})
            hist.apply({'op': 'drain'})
            if hist.violations:
                return
        hist.flags.add('c20_hotfix_queues')
    if data.draw(st.integers(0, 2), label='stale_cache') == 0:
        # a destination moves after Bert-E last refreshed its mirror cache,
        # then an admin job on (or right above) it runs while one of its
        # commands that talk to the remote fails: the job must not act on
        # the stale picture of the repository
        import re
        from vf.checks.c08 import NET_RE
        dests_ = sorted(n for n in hist.world.heads()
                        if n.startswith('development/'))
        if dests_:
            b = dests_[data.draw(st.integers(0, len(dests_) - 1),
                                 label='sc_b')]
            # (a first job fills the mirror cache)
            hist.apply({'op': 'commit_event', 'sel': {'ref': b}})
            hist.apply({'op': 'move_dst', 'branch': b})
            m = re.match(r'development/(\d+)\.(\d+)$', dests_[-1])
            jobs_ = [{'op': 'admin', 'kind': 'delete_branch',
                      'args': {'branch': b}}]
            if m:
                hist.apply({'op': 'move_dst', 'branch': dests_[-1]})
                jobs_.append({'op': 'admin', 'kind': 'create_branch',
                              'args': {'branch': 'development/%s.%d' % (
                                  m.group(1), int(m.group(2)) + 1)}})
            for js in jobs_:
                info = hist.dry_run(js)
                for ci in [ci for ci, c in enumerate(
                        info['cmds'] if info else []) if NET_RE.match(c)]:
                    hist.apply({'op': 'cmdfail', 'job': js, 'cmd': ci})
                    if hist.violations:
                        return
            hist.flags.add('c20_stale_cache_probe')
    if data.draw(st.integers(0, 3), label='cycle') == 0:
        # create - delete (archives) - create again: the archived case of
        # the statement is only reachable through this cycle
        b = CYCLE_BRANCHES[data.draw(st.integers(
            0, len(CYCLE_BRANCHES) - 1), label='cycle_branch')]
        for kind in ('create_branch', 'delete_branch', 'create_branch'):
            hist.apply({'op': 'admin', 'kind': kind, 'args': {'branch': b}})
            hist.apply({'op': 'drain'})
            if hist.violations:
                return
        hist.flags.add('c20_archive_cycle')


def nontrivial(h):
    return 'c20_admin_with_queued' in h.flags or 'c20_created' in h.flags \
        or 'c20_deleted' in h.flags


def classes(h):
    return ['mode_' + h.world.mode] + ['flag_' + f for f in sorted(h.flags)]


def shard(ctx, i, acc):
    from vf.sim import driver
    driver.ADMIN_KINDS = ('rebuild_queues', 'rebuild_queues',
                          'rebuild_queues', 'delete_queues',
                          'force_merge_queues', 'create_branch',
                          'create_branch', 'create_branch', 'delete_branch',
                          'delete_branch', 'delete_branch')
    n = 6 if ctx['tier'] == 'quick' else 80
    explore(ctx, i, acc, monitors, n, steps=(10, 30), weights=WEIGHTS,
            params_kw={'stab_bias': True, 'modes': ('queue', 'queue', 'queue',
                                                   'skipqueue', 'noqueue')}, nontrivial=nontrivial,
            classes=classes, prelude=prelude, inject=True)


def run(ctx):
    return run_shards(__name__, 'shard', ctx, list(range(ctx['nproc'])))


def replay(ctx, case, acc):
    sc = Scratch()
    try:
        viols, _ = replay_case(sc, case, monitors(), inject=True)
        for msg, sig in viols:
            acc.violation(msg, case, sig)
    finally:
        sc.cleanup()
