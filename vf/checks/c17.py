"""C17: CI results are aggregated soundly; a green verdict is never downgraded.

Part (a) - aggregation.  Real ``AggregatedWorkflowRuns`` objects are built
from generated workflow-run lists and ``.state`` is read.  Lists are processed
orbit by orbit (one multiset of runs, all its distinct orders) so that the
metamorphic clause "the verdict does not depend on the order in which the host
lists the runs" is evaluated exactly.

Part (b) - cache.  Histories of webhook events, polls and host-side changes
run against the real ``Repository.get_build_status`` (GitHub and Bitbucket
classes, built through the real clients over a scripted transport adapter) and
the real handler functions of ``bert_e/server/webhook.py``; the answers are
compared with a family of independent LRU models.
"""
import hashlib
import itertools
import json
import logging
from collections import Counter
from types import SimpleNamespace

from vf.cli import HarnessError, run_shards

LEVEL = 'exploration'
RULE = (
    'Aggregation: run = (event, status, conclusion, workflow id, head branch) '
    'over {pull_request,push,workflow_dispatch} x {completed,in_progress,'
    'queued,pending} x {success,failure,cancelled,None} x {1,2} x {q/1,w/1} '
    '(192 runs); every ORDERED list is one evaluation, grouped by multiset so '
    'that all orders of the same runs are compared (run ids travel with the '
    'runs). quick: every list of <=3 runs (7 114 945), every list of 4 over '
    'the 48 host-consistent runs without push (conclusion set iff status '
    'completed), every list of 3 runs with three distinct workflow ids over '
    'host-consistent runs (supplement beyond the stated 2 workflow ids, '
    'needed to reach the branch grouping), plus Hypothesis-drawn multisets of '
    '4 from the rest. thorough: lists of 4 complete over the 128 runs without '
    'push and over the 72 host-consistent runs, supplement over all 96^3 '
    'triples, larger sample (all 1.36e9 lists of 4 over the 192 runs are out '
    'of reach: ~6 h CPU). non-trivial = ordered list with >=2 considered (non '
    'workflow_dispatch) runs; distinct by construction (enumeration) or by '
    'multiset key (sample). '
    'Cache: histories of <=5 ops over 2 commits x 2 build keys, ops = status '
    'webhook S(key,commit,state), check-suite webhook U(commit), poll '
    'P(key,commit), host-side change H(key,commit,state); initial host truth '
    'preset {absent, failed, successful}; LRU size 1 (eviction reachable with '
    '2 commits) and 2; enumerated modulo renaming of the two commits and '
    'without two consecutive H on the same cell, histories end with a poll; '
    'quick: exhaustive <=4 ops (GitHub with keys pre-merge/github_actions, '
    'Bitbucket), <=3 ops (GitHub with two status contexts) + Hypothesis '
    'histories of <=5 ops over a wider alphabet; thorough: exhaustive <=5 '
    '(<=4 for the two-context GitHub variant). non-trivial = history with a '
    'poll whose answer is forced by stickiness against a different host '
    'truth, or a poll after '
    'a modelled eviction of a green entry (distinct by full history).')
ASSUMPTIONS = [
    'GitHub/Bitbucket replaced by a scripted requests transport adapter '
    'mounted on the real client session; no ETag/304 answers, no 5xx',
    'webhook handler functions are called directly with a BertE double '
    '(client, project_repo, settings); the Flask routing layer is not in the '
    'loop',
    'lists longer than 2 runs are built with _validate=False after every '
    'distinct run was checked against schema.WorkflowRun; the validating '
    'constructor (the path of test_github_build_status.py) is used for all '
    'lists of <=2 runs, for every sampled list and in replays; both paths '
    'are cross-checked on a sample',
    'BUILD_STATUS_CACHE size is not configurable in the tree (LRUCache '
    'default 1000); it is forced through the public LRUCache.size setter',
    'best-run ranking: only "success is best" is taken from the statement; '
    'all 6 orders of {None, failure, cancelled} are plausible; cells where '
    'rankings or tie-breaks change the literal verdict are EITHER',
    'cache discipline: 8 plausible LRU disciplines (poll records only the '
    'polled key / every key in the answer; a poll of an absent status '
    'creates an entry or not; non-green states create entries or not); an '
    'answer is forced only where all 8 agree',
]

# --------------------------------------------------------------------------
# Part (a): aggregation
# --------------------------------------------------------------------------
EVENTS = ('pull_request', 'push', 'workflow_dispatch')
STATUSES = ('completed', 'in_progress', 'queued', 'pending')
CONCLUSIONS = ('success', 'failure', 'cancelled', None)
BRANCHES = ('q/1', 'w/1')
E_PUSH, E_DISPATCH = 1, 2
C_SUCCESS = 0
SHA = 'd6fde92930d4715a2b49857d24b940956b26d2d3'

# a run is a tuple of small ints (event, status, conclusion, workflow, branch)


def _consistent(r):
    return (r[1] == 0) == (r[2] != 3)


def _alphabet(events, wfs, consistent_only=False):
    out = []
    for e in events:
        for s in range(4):
            for c in range(4):
                for w in wfs:
                    for b in range(2):
                        r = (e, s, c, w, b)
                        if consistent_only and not _consistent(r):
                            continue
                        out.append(r)
    return out


FULL = _alphabet((0, 1, 2), (1, 2))
NOPUSH = _alphabet((0, 2), (1, 2))
CONS = _alphabet((0, 1, 2), (1, 2), True)
CORE = _alphabet((0, 2), (1, 2), True)
FULL_INDEX = {r: i for i, r in enumerate(FULL)}
ALPHABETS = {'full': FULL, 'nopush': NOPUSH, 'cons': CONS, 'core': CORE}

# plausible rankings of the non-success conclusions (success always best)
RANKINGS = [dict(zip((1, 2, 3), p)) for p in itertools.permutations((1, 2, 3))]
PERMS = {n: list(itertools.permutations(range(n))) for n in range(6)}

_G = {}  # per-process lazily built objects


def run_json(r, id_):
    return {
        'id': id_,
        'head_sha': SHA,
        'head_branch': BRANCHES[r[4]],
        'status': STATUSES[r[1]],
        'event': EVENTS[r[0]],
        'workflow_id': r[3],
        'check_suite_id': id_,
        'conclusion': CONCLUSIONS[r[2]],
        'pull_requests': [{'number': 1}],
        # the pinned fixture plus owner.id, which schema.User requires
        'repository': {'full_name': 'octo-org/Hello-World',
                       'owner': {'login': 'octo-org', 'id': 1},
                       'name': 'Hello-World'},
    }


def run_human(r, id_):
    return [EVENTS[r[0]], STATUSES[r[1]], CONCLUSIONS[r[2]], r[3],
            BRANCHES[r[4]], id_]


def run_from_human(h):
    return ((EVENTS.index(h[0]), STATUSES.index(h[1]),
             CONCLUSIONS.index(h[2]), int(h[3]), BRANCHES.index(h[4])),
            int(h[5]))


def _agg_setup():
    if 'awr' in _G:
        return
    logging.disable(logging.CRITICAL)
    from bert_e.git_host import github
    from bert_e.git_host.github import schema
    _G['awr'] = github.AggregatedWorkflowRuns
    _G['gh_client'] = github.Client(
        login='login', password='password', email='email@org.com',
        base_url='http://localhost:4010', accept_header='application/json')
    _G['run_schema'] = schema.WorkflowRun()
    _G['agg_schema'] = schema.AggregateWorkflowRuns()
    _G['dicts'] = {}


def _dict_of(x):
    d = _G['dicts'].get(x)
    if d is None:
        d = run_json(*x)
        errs = _G['run_schema'].validate(d)
        if errs:
            raise HarnessError('generated run rejected by schema: %r' % errs)
        _G['dicts'][x] = d
    return d


def fast_state(lst):
    """lst: ordered tuple of (run, id). Same object as the validating
    constructor produces (validation does not transform the data)."""
    dicts = [_dict_of(x) for x in lst]
    try:
        return _G['awr'](_G['gh_client'], _validate=False,
                         workflow_runs=dicts, total_count=len(lst)).state
    except Exception as e:  # an outcome, judged by the clauses
        return 'EXC:' + type(e).__name__


def ctor_state(lst):
    """The construction of test_github_build_status.py (validating)."""
    data = {'workflow_runs': [run_json(*x) for x in lst],
            'total_count': len(lst)}
    try:
        return _G['awr'](_G['gh_client'], **data).state
    except Exception as e:
        return 'EXC:' + type(e).__name__


def orbit(lst):
    """All distinct orders of a tuple of (run, id)."""
    n = len(lst)
    if n <= 1:
        return [tuple(lst)]
    if len({x[0] for x in lst}) == n:
        return [tuple(lst[i] for i in p) for p in PERMS[n]]
    seen = {}
    for p in PERMS[n]:
        o = tuple(lst[i] for i in p)
        k = tuple(x[0] for x in o)
        if k not in seen:
            seen[k] = o
    return list(seen.values())


def oracle(runs):
    """Literal reading of the statement on a multiset of runs.

    may   : SUCCESSFUL is permitted under at least one plausible ranking and
            tie-break (otherwise it is forbidden);
    robust: permitted under every ranking and every tie-break;
    kind  : 'no_run' | 'must_not' | 'may_all' | 'either_ranking' |
            'either_tiebreak';
    tie_dependent: under some ranking the tie-break changes the verdict;
    strict: the per-branch reading (statistic only).
    """
    cons = [r for r in runs if r[0] != E_DISPATCH]
    res = {'n': len(cons), 'may': False, 'robust': False, 'kind': 'must_not',
           'tie_dependent': False, 'strict': False}
    if not cons:
        res['kind'] = 'no_run'
        return res
    if not any(r[2] == C_SUCCESS for r in cons):
        return res
    by_wf = {}
    for r in cons:
        by_wf.setdefault(r[3], []).append(r)
    branches = sorted({r[4] for r in cons})
    # per-branch reading
    for b in branches:
        wf_on_b = {r[3] for r in cons if r[4] == b}
        if all(any(r[3] == w and r[4] == b and r[2] == C_SUCCESS
                   for r in cons) for w in wf_on_b):
            res['strict'] = True
    some, alls = [], []
    for rk in RANKINGS:
        cands = []
        for w in sorted(by_wf):
            rs = by_wf[w]
            top = max(9 if r[2] == C_SUCCESS else rk[r[2]] for r in rs)
            # tie-breaks are only distinguishable by (conclusion, branch)
            cands.append(sorted({(r[2], r[4]) for r in rs
                                 if (9 if r[2] == C_SUCCESS
                                     else rk[r[2]]) == top}))
        s_, a_ = False, True
        for choice in itertools.product(*cands):
            ok = False
            for b in branches:
                on_b = [k for k in choice if k[1] == b]
                if on_b and all(k[0] == C_SUCCESS for k in on_b):
                    ok = True
                    break
            s_ = s_ or ok
            a_ = a_ and ok
        some.append(s_)
        alls.append(a_)
    res['may'] = any(some)
    res['robust'] = all(alls)
    res['tie_dependent'] = any(s and not a for s, a in zip(some, alls))
    if not res['may']:
        res['kind'] = 'must_not'
    elif res['robust']:
        res['kind'] = 'may_all'
    elif any(some) != all(some):
        res['kind'] = 'either_ranking'
    else:
        res['kind'] = 'either_tiebreak'
    return res


def variance_cause(runs, orc):
    """Classifier predicate over a failing multiset (narrow signatures)."""
    cons = [r for r in runs if r[0] != E_DISPATCH]
    pairs = list(itertools.combinations(cons, 2))
    if any(a[2] == b[2] and a[3] == b[3] and a[4] != b[4] for a, b in pairs):
        return 'tie_across_branches'
    if any(a[2:] == b[2:] and a[1] != b[1] for a, b in pairs):
        return 'tie_same_branch_status'
    if len({r[3] for r in cons}) >= 3:
        return 'interleaved_branches'
    return 'other'


def case_order(case):
    """Representative of a signature: host-consistent runs first (status
    completed iff a conclusion is set), then the smallest case."""
    j = json.dumps(case, sort_keys=True, default=str)
    return (not case.get('consistent_runs', True), len(j), j)


class Stats:
    def __init__(self):
        self.c = Counter()
        self.evals = 0
        self.nontrivial = 0
        self.best = {}      # signature json -> (size, message, case, sig)
        self.samples = []
        self.last_orc = None
        self.states = Counter()

    def violation(self, message, case, sig):
        self.c['viol_%s_%s' % (sig.get('part'), sig.get('clause'))] += 1
        if 'cause' in sig:
            self.c['viol_%s_%s_%s_%s' % (
                sig['part'], sig['clause'], sig['cause'],
                'hostlike' if case.get('consistent_runs') else 'any')] += 1
        k = json.dumps(sig, sort_keys=True)
        size = case_order(case)
        if k not in self.best or size < self.best[k][0]:
            self.best[k] = (size, message, case, sig)

    def flush(self, acc):
        acc.evaluations += self.evals
        for k, v in self.states.items():
            self.c['agg_state_' + k] += v
        acc.classes.update(self.c)
        acc.extra['enum_nontrivial'] = \
            acc.extra.get('enum_nontrivial', 0) + self.nontrivial
        for k in sorted(self.best):
            _, message, case, sig = self.best[k]
            acc.violation(message, case, sig)
        for s in self.samples[:1]:
            # own quota in Acc.merge_dump (cache samples use flag 1)
            acc.samples.append([2, s])


def _fmt(o):
    return '[' + ', '.join('%s/%s/%s wf%d@%s#%d' % tuple(run_human(*x))
                           for x in o) + ']'


def check_orbit(lst, st, ev=fast_state, alphabet='full', sub_cache=None):
    """lst: canonical tuple of (run, id). Evaluates every order with ev and
    applies all clauses. Returns the list of (order, state)."""
    runs = [x[0] for x in lst]
    orb = orbit(lst)
    res = [(o, ev(o)) for o in orb]
    states = [s for _, s in res]
    verdicts = [s == 'SUCCESSFUL' for s in states]
    orc = st.last_orc = oracle(runs)
    st.evals += len(res)
    if orc['n'] >= 2:
        st.nontrivial += len(res)
    st.c['agg_orbits'] += 1
    st.c['agg_orbit_' + orc['kind']] += 1
    if orc['kind'].startswith('either'):
        st.c['either_agg_' + orc['kind'][7:]] += 1
    st.states.update(states)
    hostlike = all(_consistent(r) for r in runs)

    def case(extra=None):
        c = {'part': 'aggregation', 'alphabet': alphabet,
             'consistent_runs': hostlike,
             'runs': [run_human(*x) for x in lst]}
        if extra:
            c.update(extra)
        return c

    for o, s in res:
        if s.startswith('EXC:'):
            st.violation('aggregation raised %s on %s' % (s, _fmt(o)),
                         case(), {'part': 'aggregation', 'clause': 'exception',
                                  'exc': s[4:]})
            break
    if any(verdicts):
        o = res[verdicts.index(True)][0]
        if orc['n'] == 0:
            st.violation('SUCCESSFUL although no run is considered: %s'
                         % _fmt(o), case(),
                         {'part': 'aggregation', 'clause': 'no_run'})
        elif not orc['may']:
            cause = 'interleaved_branches' \
                if len({r[3] for r in runs if r[0] != E_DISPATCH}) >= 3 \
                and not all(verdicts) else 'other'
            st.violation(
                'SUCCESSFUL for %s but under no ranking/tie-break of "best '
                'run of each workflow" is there a head branch whose kept '
                'runs all concluded success' % _fmt(o), case(),
                {'part': 'aggregation',
                 'clause': 'success_needs_green_branch', 'cause': cause})
        if not orc['strict'] and orc['may']:
            # Per-branch reading (DESIGN.md 9.6, seed C17-b): "on at least
            # one branch ... every considered workflow concluded with
            # success" is read as: the runs OF THAT BRANCH.  The lenient
            # reading (best run of a workflow taken from another branch)
            # lets a commit pass although no branch is green; since repair
            # R7 the code implements the per-branch reading, which is the
            # one its own comment states, so it is enforced.
            st.c['successful_beyond_per_branch_reading'] += sum(verdicts)
            st.violation(
                'SUCCESSFUL for %s although no head branch has all of its '
                'own workflows green (a green run was borrowed from another '
                'branch)' % _fmt(o), case(),
                {'part': 'aggregation',
                 'clause': 'success_needs_green_branch_per_branch'})
    if orc['robust'] and not all(verdicts):
        st.c['stat_not_successful_though_green_in_every_reading'] += \
            len(verdicts) - sum(verdicts)
    invariant = len(set(verdicts)) == 1
    if not invariant:
        st.c['agg_orbit_verdict_variant'] += 1
        o1 = res[verdicts.index(True)]
        o0 = res[verdicts.index(False)]
        cause = variance_cause(runs, orc)
        st.violation(
            'verdict depends on the order of the same runs: %s -> %s but '
            '%s -> %s' % (_fmt(o1[0]), o1[1], _fmt(o0[0]), o0[1]), case(),
            {'part': 'aggregation', 'clause': 'permutation_invariance',
             'cause': cause})
    elif len(set(states)) > 1:
        st.c['stat_orbit_nonverdict_state_order_dependent'] += 1
    # best-run dominance: a worse run next to a green completed run of the
    # same workflow on the same branch must not change the verdict
    if invariant and len(lst) >= 2:
        done = set()
        for i, (r2, _) in enumerate(lst):
            if r2[0] == E_DISPATCH or r2[2] == C_SUCCESS or r2 in done:
                continue
            if not any(r[0] != E_DISPATCH and r[1] == 0 and
                       r[2] == C_SUCCESS and r[3:] == r2[3:] for r in runs):
                continue
            done.add(r2)
            sub = lst[:i] + lst[i + 1:]
            key = sub
            if sub_cache is not None and key in sub_cache:
                sv = sub_cache[key]
            else:
                sv = {ev(o) == 'SUCCESSFUL' for o in orbit(sub)}
                if sub_cache is not None:
                    if len(sub_cache) > 200000:
                        sub_cache.clear()
                    sub_cache[key] = sv
            st.c['agg_dominance_pairs'] += 1
            if len(sv) == 1 and sv != {verdicts[0]}:
                st.violation(
                    'best-run dominance: %s -> %s, but without the worse '
                    'run %s of the same workflow and branch the verdict is '
                    '%s' % (_fmt(lst), states[0], _fmt((lst[i],)),
                            'SUCCESSFUL' if True in sv else 'not SUCCESSFUL'),
                    case({'dominated': run_human(*lst[i])}),
                    {'part': 'aggregation', 'clause': 'best_run_dominance'})
    return res


def with_ids(runs):
    return tuple((r, i + 1) for i, r in enumerate(runs))


def pinned_selftest():
    """Oracle and construction path against the four run lists of
    test_github_build_status.py (expected states as asserted there; the
    empty list has no asserted state, the statement forbids SUCCESSFUL)."""
    _agg_setup()
    ok = ((0, 0, 0, 1, 0), 1)         # pull_request completed success q/1
    cancelled = ((0, 0, 2, 1, 0), 2)  # pull_request completed cancelled q/1
    queued = ((0, 2, 3, 1, 0), 1)
    pending = ((0, 3, 3, 1, 0), 1)
    table = [((ok, cancelled), 'SUCCESSFUL'), ((queued, cancelled),
                                               'INPROGRESS'),
             ((pending, cancelled), 'INPROGRESS'), ((), None)]
    for lst, pinned in table:
        orc = oracle([x[0] for x in lst])
        if pinned == 'SUCCESSFUL' and not (orc['may'] and orc['robust']):
            raise HarnessError('oracle forbids the pinned SUCCESSFUL list')
        if pinned != 'SUCCESSFUL' and orc['may']:
            raise HarnessError('oracle allows SUCCESSFUL on pinned %r list'
                               % (pinned,))
        if fast_state(tuple(lst)) != ctor_state(tuple(lst)):
            raise HarnessError('fast path differs from constructor path')
    # the test's literal json must be accepted unchanged by our builder
    want = {'id': 1, 'head_sha': SHA, 'head_branch': 'q/1',
            'status': 'completed', 'event': 'pull_request', 'workflow_id': 1,
            'check_suite_id': 1, 'conclusion': 'success',
            'pull_requests': [{'number': 1}],
            'repository': {'full_name': 'octo-org/Hello-World',
                           'owner': {'login': 'octo-org'},
                           'name': 'Hello-World'}}
    got = run_json(*ok)
    del got['repository']['owner']['id']
    if got != want:
        raise HarnessError('run builder drifted from the pinned fixture')


def _multiset_code(runs):
    code = 0
    for r in runs:
        code = code * 193 + FULL_INDEX[r] + 1
    return code


def _decode_multiset(code):
    out = []
    while code:
        code, d = divmod(code, 193)
        out.append(FULL[d - 1])
    return tuple(reversed(out))


def _orbit_size(runs):
    n = 1
    for i in range(2, len(runs) + 1):
        n *= i
    for v in Counter(runs).values():
        for i in range(2, v + 1):
            n //= i
    return n


def _verify_dicts():
    for x, d in _G['dicts'].items():
        if d != run_json(*x):
            raise HarnessError('code under test mutated a shared run dict')


def shard_agg_enum(ctx, shard, acc):
    """shard = [alphabet name, n, first index, exclusion tag]"""
    _agg_setup()
    name, n, first, excl = shard
    alph = ALPHABETS[name]
    st = Stats()
    sub_cache = {}
    ev = ctor_state if n <= 2 else fast_state
    if n == 0:
        combos = [()]
    else:
        combos = ((first,) + rest for rest in
                  itertools.combinations_with_replacement(
                      range(first, len(alph)), n - 1))
    cross = 0
    for combo in combos:
        runs = tuple(alph[i] for i in combo)
        if excl == 'needs_push' and not any(r[0] == E_PUSH for r in runs):
            continue
        lst = with_ids(runs)
        res = check_orbit(lst, st, ev=ev, alphabet=name, sub_cache=sub_cache)
        if n >= 3 and cross < 25 and (combo[-1] * 7 + combo[1]) % 97 == 0:
            # cross-check the fast path against the validating constructor
            cross += 1
            o = res[-1][0]
            if ctor_state(o) != res[-1][1]:
                raise HarnessError('fast path differs from constructor on %s'
                                   % _fmt(o))
        if len(st.samples) < 1 and n >= 3 and \
                st.last_orc['kind'] == 'either_tiebreak':
            st.samples.append({'part': 'aggregation',
                               'runs': [run_human(*x) for x in lst],
                               'states_by_order': [s for _, s in res]})
    _verify_dicts()
    st.flush(acc)
    acc.extra['agg_enum_ordered_lists_' + name + str(n)] = st.evals


def s3_options(consistent_only):
    out = []
    for e in (0, 1, 2):
        for s in range(4):
            for c in range(4):
                for b in range(2):
                    r = (e, s, c, 0, b)
                    if consistent_only and not _consistent(r):
                        continue
                    out.append((e, s, c, b))
    return out


def shard_agg_s3(ctx, shard, acc):
    """Supplement: three runs with workflow ids 1, 2, 3.
    shard = [consistent_only, index of the option of workflow 1]"""
    _agg_setup()
    cons_only, i1 = shard
    opts = s3_options(cons_only)
    st = Stats()
    o1 = opts[i1]
    for o2 in opts:
        for o3 in opts:
            runs = tuple(sorted([o1[:3] + (1,) + o1[3:],
                                 o2[:3] + (2,) + o2[3:],
                                 o3[:3] + (3,) + o3[3:]]))
            check_orbit(with_ids(runs), st, alphabet='s3')
    _verify_dicts()
    st.flush(acc)
    acc.extra['agg_s3_ordered_lists'] = st.evals


def shard_agg_sample(ctx, shard, acc):
    """Hypothesis-drawn multisets of 4 runs outside the enumerated sets.
    shard = [shard number, max_examples, tier]"""
    from hypothesis import HealthCheck, given, seed, settings
    from hypothesis import strategies as hs
    _agg_setup()
    num, n_examples, tier = shard
    st = Stats()
    seen = set()
    all_codes, nt_codes = set(), set()

    def enumerated(runs):
        if tier == 'quick':
            return all(_consistent(r) and r[0] != E_PUSH for r in runs)
        return all(r[0] != E_PUSH for r in runs) or \
            all(_consistent(r) for r in runs)

    @seed(ctx['seed'] * 1000 + num)
    @settings(database=None, deadline=None, derandomize=False,
              report_multiple_bugs=False,
              suppress_health_check=list(HealthCheck),
              max_examples=n_examples)
    @given(hs.lists(hs.integers(0, len(FULL) - 1), min_size=4, max_size=4))
    def prop(idx):
        runs = tuple(sorted(FULL[i] for i in idx))
        code = _multiset_code(runs)
        if code in seen or enumerated(runs):
            st.c['agg_sample_skipped'] += 1
            return
        seen.add(code)
        # ordered lists of sampled orbits are recounted by the parent
        # (two shards may draw the same multiset)
        evals, nontrivial = st.evals, st.nontrivial
        lst = with_ids(runs)
        res = check_orbit(lst, st, alphabet='full')
        st.evals, st.nontrivial = evals, nontrivial
        if ctor_state(res[0][0]) != res[0][1]:
            raise HarnessError('fast path differs from constructor on %s'
                               % _fmt(res[0][0]))
        all_codes.add(code)
        if st.last_orc['n'] >= 2:
            nt_codes.add(code)

    prop()
    _verify_dicts()
    st.flush(acc)
    # every sampled multiset (trivial or not) is reported for the recount
    for code in sorted(all_codes):
        acc.nontrivial.add('a4:%d' % code)
    for code in sorted(nt_codes):
        acc.nontrivial.add('A4:%d' % code)


# --------------------------------------------------------------------------
# Part (b): cache
# --------------------------------------------------------------------------
COMMITS = ('a' * 40, 'b' * 40)
GA = 'github_actions'
EXPECT = {None: 'NOTSTARTED', 'S': 'SUCCESSFUL', 'F': 'FAILED',
          'I': 'INPROGRESS', 'E': 'FAILED', 'C': 'FAILED', 'T': 'STOPPED'}
GH_STATUS = {'S': 'success', 'F': 'failure', 'I': 'pending', 'E': 'error'}
GH_RUN = {'S': ('completed', 'success'), 'F': ('completed', 'failure'),
          'I': ('in_progress', None), 'C': ('completed', 'cancelled')}
BB_STATE = {'S': 'SUCCESSFUL', 'F': 'FAILED', 'I': 'INPROGRESS',
            'T': 'STOPPED'}
VARIANTS = {
    'github_a': ('github', ('pre-merge', GA)),
    'github_b': ('github', ('pre-merge', 'post-merge')),
    'bitbucket': ('bitbucket', ('pre-merge', 'post-merge')),
}
GH_OWNER, GH_SLUG = 'octo-org', 'hello-world'
GH_REPO = {'name': GH_SLUG, 'full_name': GH_OWNER + '/' + GH_SLUG,
           'owner': {'id': 7, 'login': GH_OWNER, 'type': 'Organization'},
           'private': True, 'default_branch': 'development/1.0'}


def _response(request, code, body):
    import requests
    from requests.structures import CaseInsensitiveDict
    r = requests.Response()
    r.status_code = code
    r._content = json.dumps(body).encode()
    r.headers = CaseInsensitiveDict({'Content-Type': 'application/json'})
    r.url = request.url
    r.request = request
    r.reason = 'OK' if code == 200 else 'Not Found'
    r.encoding = 'utf-8'
    return r


def _make_adapter(kind, world):
    from urllib.parse import parse_qs, urlsplit
    from requests.adapters import BaseAdapter

    class Adapter(BaseAdapter):
        def close(self):
            pass

        def send(self, request, **kw):
            u = urlsplit(request.url)
            world.requests += 1
            if request.method != 'GET':
                return _response(request, 404, {'message': 'Not Found'})
            if kind == 'github':
                return _response(request, *world.github_get(
                    u.path, parse_qs(u.query)))
            return _response(request, *world.bitbucket_get(u.path))
    return Adapter()


class World:
    """The real client/repository of one host over a scripted transport."""

    def __init__(self, kind):
        from bert_e.git_host import cache
        from bert_e.lib.settings_dict import SettingsDict
        from bert_e.server import webhook
        logging.disable(logging.CRITICAL)
        self.kind = kind
        self.cache = cache
        self.webhook = webhook
        self.truth = {}
        self.keys = ()
        self.requests = 0
        if kind == 'github':
            from bert_e.git_host import github
            self.client = github.Client(
                login='robot', password='pw', email='robot@example.com',
                base_url='http://github.test',
                accept_header='application/json')
            self.client.session.trust_env = False
            self.client.session.mount('http://github.test',
                                      _make_adapter(kind, self))
            self.repo = self.client.get_repository(GH_SLUG, GH_OWNER)
            if type(self.repo) is not github.Repository:
                raise HarnessError('unexpected repository class')
        else:
            from bert_e.git_host import bitbucket
            self.client = bitbucket.Client('robot', 'pw', 'robot@example.com')
            self.client.trust_env = False
            self.client.mount('https://api.bitbucket.org',
                              _make_adapter(kind, self))
            self.repo = self.client.get_repository('slug', 'own')
            if type(self.repo) is not bitbucket.Repository:
                raise HarnessError('unexpected repository class')
        self.berte = SimpleNamespace(
            client=self.client, project_repo=self.repo, git_repo=None,
            settings=SettingsDict({'commit_base_url': 'http://x/{commit_id}'}))

    # ---- scripted host -------------------------------------------------
    def github_get(self, path, query):
        base = '/repos/%s/%s' % (GH_OWNER, GH_SLUG)
        if path == base:
            return 200, GH_REPO
        if path.startswith(base + '/commits/') and path.endswith('/status'):
            sha = path.split('/')[-2]
            sts = []
            for k in self.keys:
                v = self.truth.get((k, sha))
                if k != GA and v is not None:
                    sts.append({'state': GH_STATUS[v], 'context': k,
                                'target_url': 'http://ci/%s/%s' % (k, sha[:4]),
                                'description': 'build ' + v})
            overall = 'success' if sts and all(
                s['state'] == 'success' for s in sts) else 'pending'
            return 200, {'state': overall, 'sha': sha, 'statuses': sts,
                         'total_count': len(sts), 'repository': GH_REPO}
        if path == base + '/actions/runs':
            sha = query['head_sha'][0]
            runs = self.github_runs(sha)
            return 200, {'total_count': len(runs), 'workflow_runs': runs}
        return 404, {'message': 'Not Found'}

    def github_runs(self, sha):
        v = self.truth.get((GA, sha)) if GA in self.keys else None
        if v is None:
            return []
        status, conclusion = GH_RUN[v]
        return [{'id': 30433642, 'head_sha': sha, 'head_branch': 'q/1',
                 'status': status, 'conclusion': conclusion, 'event': 'push',
                 'workflow_id': 159038, 'check_suite_id': 42,
                 'html_url': 'http://ci/run', 'repository': GH_REPO}]

    def bitbucket_get(self, path):
        p = path.split('/')
        if p[:3] == ['', '2.0', 'repositories'] and len(p) == 5:
            return 200, {'owner': {'username': p[3]}, 'slug': p[4],
                         'name': p[4], 'full_name': p[3] + '/' + p[4],
                         'scm': 'git', 'is_private': True}
        if len(p) == 10 and p[5] == 'commit' and \
                p[7:9] == ['statuses', 'build']:
            v = self.truth.get((p[9], p[6]))
            if v is not None:
                return 200, {'state': BB_STATE[v], 'key': p[9],
                             'name': 'build', 'url': 'http://ci/' + p[9],
                             'description': 'build ' + v}
        return 404, {'type': 'error', 'error': {'message': 'not found'}}

    # ---- case control --------------------------------------------------
    def reset(self, keys, size, preset):
        self.keys = tuple(keys)
        self.truth = {(k, c): preset for k in keys for c in COMMITS}
        cch = self.cache.BUILD_STATUS_CACHE
        cch.clear()
        for k in set(keys) | {GA}:
            cch[k].size = size       # public setter of LRUCache
        if self.kind == 'github':
            self.client.query_cache.clear()

    def host_now(self, k, c):
        return EXPECT[self.truth.get((k, c))]

    def reported(self, k, c):
        """key -> state contained in the host's answer to a poll of (k, c)"""
        if self.kind == 'bitbucket':
            v = self.truth.get((k, c))
            return {} if v is None else {k: EXPECT[v]}
        out = {}
        for k2 in self.keys:
            v = self.truth.get((k2, c))
            if k2 != GA and v is not None:
                out[k2] = EXPECT[v]
        out[GA] = EXPECT[self.truth.get((GA, c)) if GA in self.keys else None]
        return out

    # ---- operations on the real code -------------------------------------
    def poll(self, k, c):
        try:
            return self.repo.get_build_status(c, k)
        except Exception as e:
            return 'EXC:' + type(e).__name__

    def status_event(self, k, c, v):
        if self.kind == 'github':
            data = {'sha': c, 'state': GH_STATUS[v], 'context': k,
                    'description': 'build ' + v,
                    'target_url': 'http://ci/%s/%s' % (k, c[:4]),
                    'repository': GH_REPO}
            self.webhook.handle_github_status_event(self.berte, data)
        else:
            data = {'commit_status': {
                'state': BB_STATE[v], 'key': k, 'name': 'build',
                'url': 'http://ci/' + k, 'description': 'build ' + v,
                'links': {'commit': {'href': 'https://api.bitbucket.org/2.0/'
                                     'repositories/own/slug/commit/' + c}}},
                'repository': {'owner': {'username': 'own'}, 'name': 'slug'}}
            self.webhook.handle_bitbucket_repo_event(
                self.berte, 'commit_status_updated', data)

    def suite_event(self, c):
        v = self.truth.get((GA, c))
        status, conclusion = GH_RUN[v] if v else ('queued', None)
        data = {'action': 'completed' if conclusion else 'requested',
                'check_suite': {'id': 42, 'head_sha': c, 'head_branch': 'q/1',
                                'status': status, 'conclusion': conclusion},
                'repository': GH_REPO}
        self.webhook.handle_github_check_suite_event(self.berte, data)


class LRUModel:
    """Independent LRU cache of seen states; flags select the discipline."""

    def __init__(self, size, bulk, absent_entry, nonsucc_entry):
        self.size = size
        self.bulk = bulk
        self.absent_entry = absent_entry
        self.nonsucc_entry = nonsucc_entry
        self.order = {}     # key -> list of commits, least recent first
        self.state = {}     # (key, commit) -> state
        self.evicted_green = set()

    def touch(self, k, c):
        o = self.order.setdefault(k, [])
        if c in o:
            o.remove(c)
            o.append(c)

    def green(self, k, c):
        return self.state.get((k, c)) == 'SUCCESSFUL'

    def record(self, k, c, s):
        o = self.order.setdefault(k, [])
        if c in o:
            self.touch(k, c)
            if not self.green(k, c):
                self.state[(k, c)] = s
            return
        if s != 'SUCCESSFUL' and not self.nonsucc_entry:
            return
        while len(o) >= self.size:
            old = o.pop(0)
            if self.state.pop((k, old)) == 'SUCCESSFUL':
                self.evicted_green.add((k, old))
        o.append(c)
        self.state[(k, c)] = s
        self.evicted_green.discard((k, c))

    def poll(self, k, c, reported):
        """Returns True if the model answers from its green entry."""
        self.touch(k, c)
        if self.green(k, c):
            return True
        keys = sorted(reported) if self.bulk else \
            [x for x in (k,) if x in reported]
        for k2 in keys:
            self.record(k2, c, reported[k2])
        if k not in reported and self.absent_entry:
            self.record(k, c, 'NOTSTARTED')
        return False


def model_family(size):
    return [LRUModel(size, b, a, n) for b in (False, True)
            for a in (False, True) for n in (False, True)]


def run_history(world, case, st, classify=True):
    """Execute one history on the real code and on the model family.
    case = {'variant','size','preset','ops'}; returns list of answers."""
    kind, keys = VARIANTS[case['variant']]
    world.reset(keys, case['size'], case['preset'])
    models = model_family(case['size'])
    answers = []
    flags = set()
    for i, op in enumerate(case['ops']):
        t = op[0]
        if t == 'H':
            world.truth[(keys[op[1]], COMMITS[op[2]])] = op[3]
            continue
        if t in ('S', 'U'):
            if t == 'S':
                k, c, s = keys[op[1]], COMMITS[op[2]], EXPECT[op[3]]
            else:
                k, c = GA, COMMITS[op[1]]
                s = world.host_now(k, c)
            try:
                if t == 'S':
                    world.status_event(k, c, op[3])
                else:
                    world.suite_event(c)
            except Exception as e:
                st.violation(
                    'webhook handler raised %s at step %d of %s'
                    % (type(e).__name__, i, json.dumps(case['ops'])),
                    dict(case, part='cache', ops=case['ops'][:i + 1]),
                    {'part': 'cache', 'clause': 'handler_exception',
                     'host': kind, 'exc': type(e).__name__})
                break
            for m in models:
                m.touch(k, c)
                m.record(k, c, s)
            continue
        # poll
        k, c = keys[op[1]], COMMITS[op[2]]
        now = world.host_now(k, c)
        rep = world.reported(k, c)
        was_evicted = any((k, c) in m.evicted_green for m in models)
        sticky = [m.poll(k, c, rep) for m in models]
        got = world.poll(k, c)
        answers.append(got)
        if all(sticky):
            allowed = ('SUCCESSFUL',)
            if now != 'SUCCESSFUL':
                flags.add('sticky')
        elif not any(sticky):
            allowed = (now,)
            if was_evicted:
                flags.add('evicted')
        else:
            allowed = ('SUCCESSFUL', now)
            st.c['either_cache_discipline'] += 1
        if got == 'SUCCESSFUL':
            for m in models:   # an answered SUCCESSFUL is a seen SUCCESSFUL
                m.record(k, c, 'SUCCESSFUL')
        if got not in allowed:
            sub = dict(case, part='cache', ops=case['ops'][:i + 1])
            if got.startswith('EXC:'):
                clause = 'exception'
            elif all(sticky):
                clause = 'downgrade'
                if classify:
                    other = [o for o in sub['ops'][:-1]
                             if not (o[0] == 'P' and o[2] == op[2]
                                     and o[1] != op[1])]
                    if len(other) < i:
                        tmp = Stats()
                        ans, _ = run_history(
                            world, dict(case, ops=other + [op]), tmp, False)
                        if ans and ans[-1] == 'SUCCESSFUL' and not tmp.best:
                            clause = 'downgrade_by_other_key'
            elif got == 'SUCCESSFUL':
                clause = 'stale_success'
            else:
                clause = 'stale_answer'
            st.violation(
                '%s %s size=%d preset=%s: after %s the poll of (%s, commit '
                '%d) answered %s, expected %s (host reports %s now; green '
                'entry retained in %d/8 cache disciplines)'
                % (kind, '/'.join(keys), case['size'], case['preset'],
                   json.dumps(sub['ops'][:-1]), k, op[2], got,
                   ' or '.join(allowed), now, sum(sticky)),
                sub, {'part': 'cache', 'clause': clause, 'host': kind})
            break   # the real cache and the models have diverged
    return answers, flags


def _run_and_count(world, case, st, acc):
    answers, flags = run_history(world, case, st)
    key = int.from_bytes(hashlib.blake2b(
        json.dumps(case, sort_keys=True).encode(), digest_size=8).digest(),
        'big')
    classes = ['cache_histories_' + case['variant']]
    if 'sticky' in flags:
        classes.append('cache_sticky_tested')
    if 'evicted' in flags:
        classes.append('cache_eviction_tested')
    sample = None
    if flags and acc._nt_samples < 1:
        sample = dict(case, answers=answers)
    acc.case(key, bool(flags), sample=sample, classes=classes)
    st.c['cache_polls'] += len(answers)


def op_alphabet(variant, wide=False):
    kind, keys = VARIANTS[variant]
    vals = ('S', 'F', 'I') if wide else ('S', 'F')
    ops = []
    for ki, k in enumerate(keys):
        if k == GA:
            continue
        for ci in (0, 1):
            for v in vals + (('E',) if wide and kind == 'github' else
                             ('T',) if wide else ()):
                ops.append(['S', ki, ci, v])
    if GA in keys:
        ops += [['U', 0], ['U', 1]]
    ops += [['P', ki, ci] for ki in (0, 1) for ci in (0, 1)]
    for ki, k in enumerate(keys):
        for ci in (0, 1):
            hv = vals + ((None,) if wide else ())
            if wide:
                hv += ('C',) if k == GA else \
                    ('E',) if kind == 'github' else ('T',)
            for v in hv:
                ops.append(['H', ki, ci, v])
    return ops


def _commit_of(op):
    return op[1] if op[0] == 'U' else op[2]


def histories(variant, n, first):
    """All histories of exactly n ops ending with a poll whose first op is
    alphabet[first] (which must name commit 0); no two consecutive H on the
    same cell."""
    alpha = op_alphabet(variant)
    polls = [o for o in alpha if o[0] == 'P']
    f = alpha[first]
    if _commit_of(f) != 0:
        return
    if n == 1:
        if f[0] == 'P':
            yield [f]
        return
    for mid in itertools.product(alpha, repeat=n - 2):
        seq = [f] + list(mid)
        if any(a[0] == 'H' and b[0] == 'H' and a[1:3] == b[1:3]
               for a, b in zip(seq, seq[1:])):
            continue
        for p in polls:
            yield seq + [p]


def _world(kind):
    w = _G.get('world_' + kind)
    if w is None:
        w = _G['world_' + kind] = World(kind)
    return w


def shard_cache_enum(ctx, shard, acc):
    """shard = [variant, size, preset, n, first op index]"""
    variant, size, preset, n, first = shard
    world = _world(VARIANTS[variant][0])
    st = Stats()
    count = 0
    for ops in histories(variant, n, first):
        _run_and_count(world, {'variant': variant, 'size': size,
                               'preset': preset, 'ops': ops}, st, acc)
        count += 1
    st.flush(acc)
    acc.extra['cache_enum_histories_%s_len%d' % (variant, n)] = count
    acc.extra['host_requests'] = world.requests
    world.requests = 0


def shard_cache_hyp(ctx, shard, acc):
    """shard = [shard number, max_examples]"""
    from hypothesis import HealthCheck, given, seed, settings
    from hypothesis import strategies as hs
    num, n_examples = shard
    st = Stats()
    alphas = {v: op_alphabet(v, wide=True) for v in sorted(VARIANTS)}

    @hs.composite
    def cases(draw):
        variant = draw(hs.sampled_from(sorted(VARIANTS)))
        size = draw(hs.sampled_from((1, 2)))
        preset = draw(hs.sampled_from((None, 'F', 'S', 'I')))
        ops = draw(hs.lists(hs.sampled_from(alphas[variant]), min_size=0,
                            max_size=4))
        last = draw(hs.sampled_from(
            [o for o in alphas[variant] if o[0] == 'P']))
        return {'variant': variant, 'size': size, 'preset': preset,
                'ops': [list(o) for o in ops] + [list(last)]}

    @seed(ctx['seed'] * 1000 + 500 + num)
    @settings(database=None, deadline=None, derandomize=False,
              report_multiple_bugs=False,
              suppress_health_check=list(HealthCheck),
              max_examples=n_examples)
    @given(cases())
    def prop(case):
        _run_and_count(_world(VARIANTS[case['variant']][0]), case, st, acc)
        st.c['cache_hyp_histories'] += 1

    prop()
    st.flush(acc)


# --------------------------------------------------------------------------
# driver
# --------------------------------------------------------------------------
def shard_any(ctx, job, acc):
    globals()[job[0]](ctx, job[1], acc)


def _first_indices(variant):
    return [i for i, o in enumerate(op_alphabet(variant))
            if _commit_of(o) == 0]


def plan(ctx):
    thorough = ctx['tier'] == 'thorough'
    agg, s3, smp, cen, chy = [], [], [], [], []
    agg.append(['full', 0, 0, None])
    for n in (1, 2, 3):
        agg += [['full', n, f, None] for f in range(len(FULL))]
    if thorough:
        agg += [['nopush', 4, f, None] for f in range(len(NOPUSH))]
        agg += [['cons', 4, f, 'needs_push'] for f in range(len(CONS))]
    else:
        agg += [['core', 4, f, None] for f in range(len(CORE))]
    s3 = [[not thorough, i] for i in range(len(s3_options(not thorough)))]
    smp = [[i, 12000 if thorough else 800, ctx['tier']] for i in range(16)]
    for variant in ('github_a', 'bitbucket', 'github_b'):
        for size in (1, 2):
            for preset in (None, 'F', 'S'):
                top = 5 if thorough else 4
                if variant == 'github_b':
                    top -= 1
                for n in range(1, top + 1):
                    cen += [[variant, size, preset, n, f]
                            for f in _first_indices(variant)]
    chy = [[i, 2500 if thorough else 400] for i in range(16)]
    # biggest shards first
    agg.sort(key=lambda s: (-s[1], s[2]))
    cen.sort(key=lambda s: (-s[3], s[0] != 'github_a'))
    return agg, s3, smp, cen, chy


def run(ctx):
    pinned_selftest()
    agg, s3, smp, cen, chy = plan(ctx)
    jobs = [['shard_cache_enum', x] for x in cen if x[3] >= 4] + \
        [['shard_agg_enum', x] for x in agg if x[1] >= 3] + \
        [['shard_agg_sample', x] for x in smp] + \
        [['shard_cache_hyp', x] for x in chy] + \
        [['shard_agg_s3', x] for x in s3] + \
        [['shard_cache_enum', x] for x in cen if x[3] < 4] + \
        [['shard_agg_enum', x] for x in agg if x[1] < 3]
    acc = run_shards(__name__, 'shard_any', ctx, jobs)
    # one representative per signature (cli prints the smallest case of at
    # most five signatures): host-consistent inputs first
    best = {}
    for v in acc.violations:
        k = json.dumps(v.signature, sort_keys=True)
        if k not in best or case_order(v.case) < case_order(best[k].case):
            best[k] = v
    acc.violations = [best[k] for k in sorted(best)]
    # recount the sampled orbits (ordered lists, distinct across shards)
    sampled = sorted(int(k[3:]) for k in acc.nontrivial
                     if isinstance(k, str) and k.startswith('a4:'))
    sampled_nt = sorted(int(k[3:]) for k in acc.nontrivial
                        if isinstance(k, str) and k.startswith('A4:'))
    n_sampled = sum(_orbit_size(_decode_multiset(c)) for c in sampled)
    n_sampled_nt = sum(_orbit_size(_decode_multiset(c)) for c in sampled_nt)
    cache_keys = sum(1 for k in acc.nontrivial if isinstance(k, int))
    acc.nontrivial = {k for k in acc.nontrivial if isinstance(k, int)}
    acc.evaluations += n_sampled
    acc.extra['agg_sampled_multisets_of_4'] = len(sampled)
    acc.extra['agg_sampled_ordered_lists'] = n_sampled
    acc.extra['distinct_nontrivial'] = \
        acc.extra.get('enum_nontrivial', 0) + n_sampled_nt + cache_keys
    acc.extra['distinct_nontrivial_cache_histories'] = cache_keys
    thorough = ctx['tier'] == 'thorough'
    acc.extra['exhaustive'] = False
    acc.extra['exhaustive_parts'] = [
        'aggregation: all ordered lists of <=3 runs over the 192-run '
        'alphabet',
        'aggregation: all ordered lists of 4 runs over ' +
        ('the 128 runs without push and over the 72 host-consistent runs'
         if thorough else 'the 48 host-consistent runs without push'),
        'cache: all histories of <=%d ops ending with a poll (modulo commit '
        'renaming, no consecutive H on one cell) for github_a and bitbucket, '
        '<=%d ops for github_b; sizes 1-2, 3 presets'
        % ((5, 4) if thorough else (4, 3)),
    ]
    acc.extra['not_exhaustive'] = [
        'ordered lists of 4 runs over the full 192-run alphabet '
        '(1.36e9): sampled only outside the parts above']
    return acc


def replay(ctx, case, acc):
    st = Stats()
    if case.get('part') == 'aggregation':
        _agg_setup()
        lst = tuple(run_from_human(h) for h in case['runs'])
        check_orbit(lst, st, ev=ctor_state,
                    alphabet=case.get('alphabet', 'full'))
    elif case.get('part') == 'cache':
        world = _world(VARIANTS[case['variant']][0])
        run_history(world, {k: case[k] for k in
                            ('variant', 'size', 'preset', 'ops')}, st)
    else:
        raise HarnessError('unknown case %r' % (case,))
    for k in sorted(st.best):
        _, message, c, sig = st.best[k]
        acc.violation(message, c, sig)
