"""C04 review gate: exhaustive enumeration of the approval predicate on the
real check_approvals (through a real PullRequestJob whose options were set by
the real handle_comments / pr_author_options / gwf.setup), against an oracle
written from the property statement; plus the SettingsSchema sub-check
(rejects exactly leaders > peers or leaders > |project_leaders|).

Oracle (statement of C04, three-valued):

  eff        = host approvers + {author} when the `approve` option is on
  author_ok  = author approval disabled or bypassed, or author in eff
  peers_ok   = bypassed, or |eff - {author}| >= required_peer_approvals
  leaders_ok = bypassed, or |(eff + {author}) & leaders| >= required_leader..
  unan_ok    = unanimity off, or participants - {robot} is a subset of eff
  cr_ok      = no change request, or every review requirement is waived
               (author: disabled/bypassed; peers, leaders: bypassed or the
               required count is 0, i.e. there is no requirement to waive)
  MUST-PASS iff all five hold, MUST-BLOCK otherwise, except

  EITHER   : a change request is present, peers and leaders are waived, the
             author requirement is not waived but the `approve` option is on
             (statement: "waived"; the code also takes "approved by option").
  EITHER   : a change request is present, every count requirement is waived,
             unanimity is on and met (only reachable when the sole change
             requester is the author, who also set `approve`): the statement
             does not say whether unanimity is one of the "review
             requirements above" that must be waived.
  STATISTIC: unanimity on, `approve` forced from the command line, author not
             a participant (outside the quantifier; counted, never an alarm).
"""
import itertools
import json

from vf import stubs
from vf.cli import run_shards, HarnessError

LEVEL = 'exploration'
RULE = ('Exhaustive, ordered enumeration (sharded by group index modulo) of '
        'required_peer_approvals 0-3 x required_leader_approvals 0-2 x '
        'project-leader set (quick: {leader}, {leader,author}; thorough adds '
        '{} and {author}) restricted to what SettingsSchema accepts x '
        'need_author_approval x per-user review state {absent, participant, '
        'approved, requested changes} for author, peer1, peer2, leader x '
        'robot {absent, participant, approved} x admin (participant|approved'
        '[|requested changes in thorough] whenever it posted a comment) x '
        'per-bypass source {none, admin comment via real handle_comments, '
        'pr_author_options, command line via gwf.setup} for the three '
        'approval bypasses (4^3) x approve {off, author comment, command '
        'line} x unanimity {off, comment by author, by peer1 [thorough: '
        'also by leader, by admin]}; host invariants: a comment poster is a '
        'participant, an approver does not request changes, the robot never '
        'requests changes. A decoy pr_author_options entry granting all '
        'bypasses to peer1 is present when peers+leaders is odd. Every case goes through '
        'the real check_approvals on a real PullRequestJob. Non-trivial = at '
        'least two of the five clauses (author, peers, leaders, unanimity, '
        'change request) are live, i.e. not decided by a waiver / a zero '
        'count / an absent option or change request; distinct by full input '
        'tuple. The 64-case SettingsSchema sub-check is counted in '
        'schema_cases.')
ASSUMPTIONS = [
    'git host replaced by an in-memory pull request (vf.stubs.FakePR); '
    'template rendering stubbed',
    'within one (settings, option sources, comments) group the real '
    'handle_comments runs once and the same job object is re-used for every '
    'review state (check_approvals only reads it); every 101st case is '
    'cross-checked against a freshly built job and the job options are '
    'compared before/after each group (difference = harness error)',
    'a required count of 0 is read as "no requirement", hence as waived for '
    'the change-request clause',
    'EITHER cell widened w.r.t. DESIGN.md: author requirement not waived and '
    '`approve` option on, whether or not the author also approved on the host',
    'second EITHER cell (not in DESIGN.md): change request present, all '
    'count requirements waived, unanimity on and met',
]

AUTHOR, PEER1, PEER2, LEADER, ROBOT, ADMIN = (
    stubs.AUTHOR, stubs.PEER1, stubs.PEER2, stubs.LEADER, stubs.ROBOT,
    stubs.ADMIN)
USERS = (AUTHOR, PEER1, PEER2, LEADER, ROBOT, ADMIN)
STATES = ('absent', 'participant', 'approved', 'changes_requested')
BYPASS = ('bypass_author_approval', 'bypass_peer_approval',
          'bypass_leader_approval')
BYPASS_SHORT = ('author', 'peer', 'leader')
SOURCES = ('none', 'comment', 'setting', 'cmdline')
APPROVE = ('none', 'comment', 'cmdline')
LEADER_SETS = ((LEADER,), (LEADER, AUTHOR), (), (AUTHOR,))
POSTERS = (None, AUTHOR, PEER1, LEADER, ADMIN)
CLAUSES = ('author', 'peers', 'leaders', 'unanimity', 'change_request')

CROSSCHECK_EVERY = 101


# --------------------------------------------------------------------------
# domain
# --------------------------------------------------------------------------

def domain(tier):
    if tier == 'thorough':
        return {'leader_sets': (0, 1, 2, 3), 'posters': (0, 1, 2, 3, 4),
                'admin_states': (1, 2, 3)}
    return {'leader_sets': (0, 1), 'posters': (0, 1, 2),
            'admin_states': (1, 2)}


def settings_list(dom):
    out = []
    for ls in dom['leader_sets']:
        for peers in (0, 1, 2, 3):
            for leaders in (0, 1, 2):
                # what SettingsSchema accepts (checked by the sub-check)
                if leaders > peers or leaders > len(LEADER_SETS[ls]):
                    continue
                for need in (1, 0):
                    out.append((peers, leaders, ls, need))
    return out


def groups(dom):
    """Ordered list of (settings, bypass sources, approve source)."""
    for st in settings_list(dom):
        for bsrc in itertools.product((0, 1, 2, 3), repeat=3):
            for approve in (0, 1, 2):
                yield st, bsrc, approve


def people_states(dom, bsrc, approve, poster):
    """Every review state compatible with the host invariants."""
    who = POSTERS[poster]
    a_states = (1, 2, 3) if (approve == 1 or who == AUTHOR) else (0, 1, 2, 3)
    p1_states = (1, 2, 3) if who == PEER1 else (0, 1, 2, 3)
    l_states = (1, 2, 3) if who == LEADER else (0, 1, 2, 3)
    adm_states = dom['admin_states'] if (1 in bsrc or who == ADMIN) else (0,)
    # (the robot account may have approved on the host: it is then one of
    # "the approving reviewers other than the author")
    return itertools.product(a_states, p1_states, (0, 1, 2, 3), l_states,
                             (0, 1, 2), adm_states)


def case_key(st, bsrc, approve, poster, people):
    k = 0
    for v, radix in ((st[0], 4), (st[1], 3), (st[2], 4), (st[3], 2),
                     (bsrc[0], 4), (bsrc[1], 4), (bsrc[2], 4), (approve, 3),
                     (poster, 5), (people[0], 4), (people[1], 4),
                     (people[2], 4), (people[3], 4), (people[4], 3),
                     (people[5], 4)):
        k = k * radix + v
    return k


def case_json(st, bsrc, approve, poster, people):
    """Compact JSON form (defaults omitted, so size follows complexity)."""
    c = {'kind': 'gate', 'peers': st[0], 'leaders': st[1],
         'project_leaders': list(LEADER_SETS[st[2]]),
         'need_author_approval': bool(st[3])}
    ppl = {u: STATES[s] for u, s in zip(USERS, people) if s}
    if ppl:
        c['people'] = ppl
    byp = {BYPASS_SHORT[i]: SOURCES[s] for i, s in enumerate(bsrc) if s}
    if byp:
        c['bypass'] = byp
    if approve:
        c['approve'] = APPROVE[approve]
    if poster:
        c['unanimity_by'] = POSTERS[poster]
    return c


def case_from_json(c):
    st = (int(c['peers']), int(c['leaders']),
          LEADER_SETS.index(tuple(c['project_leaders'])),
          1 if c['need_author_approval'] else 0)
    byp = c.get('bypass', {})
    bsrc = tuple(SOURCES.index(byp.get(k, 'none')) for k in BYPASS_SHORT)
    approve = APPROVE.index(c.get('approve', 'none'))
    poster = POSTERS.index(c.get('unanimity_by'))
    ppl = c.get('people', {})
    people = tuple(STATES.index(ppl.get(u, 'absent')) for u in USERS)
    return st, bsrc, approve, poster, people


# --------------------------------------------------------------------------
# oracle (from the statement; knows nothing about the code)
# --------------------------------------------------------------------------

def oracle(peers, leaders, leader_set, need, parts, apprs, crs, byp,
           approve_on, approve_cmdline, unanimity):
    """-> (verdict, failing clauses, live clauses, tags).

    verdict in {'pass', 'block', 'either', 'stat'}."""
    byp_a, byp_p, byp_l = byp
    eff = set(apprs)
    if approve_on:
        eff.add(AUTHOR)
    author_ok = (not need) or byp_a or AUTHOR in eff
    peers_ok = byp_p or len(eff - {AUTHOR}) >= peers
    leaders_ok = byp_l or len((eff | {AUTHOR}) & set(leader_set)) >= leaders
    unan_ok = (not unanimity) or (set(parts) - {ROBOT}) <= eff

    author_waived = (not need) or byp_a
    peers_waived = byp_p or peers == 0
    leaders_waived = byp_l or leaders == 0
    tags = []
    cr = 'ok'
    if crs:
        if author_waived and peers_waived and leaders_waived:
            if not (byp_p and byp_l):
                tags.append('cr_exempt_relies_on_zero_count')
            if unanimity:
                # is unanimity one of the "review requirements above" that
                # would have to be waived?  The statement leaves it open.
                cr = 'either_unanimity'
        elif peers_waived and leaders_waived and approve_on:
            cr = 'either'
        else:
            cr = 'block'

    failing = [n for n, ok in zip(CLAUSES, (author_ok, peers_ok, leaders_ok,
                                            unan_ok, cr != 'block')) if not ok]
    live = (bool(need and not byp_a), bool(peers and not byp_p),
            bool(leaders and not byp_l), bool(unanimity),
            bool(crs) and not (author_waived and peers_waived and
                               leaders_waived))
    if unanimity and approve_cmdline and AUTHOR not in parts:
        return 'stat', failing, live, tags
    if failing:
        return 'block', failing, live, tags
    if cr == 'either':
        tags.append('either_cr_author_by_approve_option')
        if AUTHOR in apprs:
            tags.append('either_cr_author_also_approved_on_host')
        return 'either', failing, live, tags
    if cr == 'either_unanimity':
        tags.append('either_cr_all_waived_unanimity_on')
        return 'either', failing, live, tags
    return 'pass', failing, live, tags


# --------------------------------------------------------------------------
# system under test
# --------------------------------------------------------------------------

def get_settings(st, set_keys):
    peers, leaders, ls, need = st
    over = {'required_peer_approvals': peers,
            'required_leader_approvals': leaders,
            'project_leaders': list(LEADER_SETS[ls]),
            'need_author_approval': bool(need)}
    pao = {}
    decoy = (peers + leaders) % 2
    # the decoy is listed before or after the author's own entry (the
    # settings loader walks the mapping in file order), and the author may
    # be listed with an unrelated bypass only
    decoy_first = decoy and (peers + 2 * leaders + need) % 4 < 2
    if decoy_first:
        pao[PEER1] = list(BYPASS)       # decoy: must not help `author`
    if set_keys:
        pao[AUTHOR] = list(set_keys)
    elif decoy:
        pao[AUTHOR] = ['bypass_jira_check']
    if decoy and not decoy_first:
        pao[PEER1] = list(BYPASS)       # decoy: must not help `author`
    if pao:
        over['pr_author_options'] = pao
    return stubs.load_settings(**over)


def split_sources(bsrc, approve):
    com = [BYPASS[i] for i in range(3) if bsrc[i] == 1]
    sett = [BYPASS[i] for i in range(3) if bsrc[i] == 2]
    cmd = [BYPASS[i] for i in range(3) if bsrc[i] == 3]
    if approve == 2:
        cmd.append('approve')
    return com, sett, cmd


def make_comments(com_keys, approve, poster, robot_first=False):
    comments = []
    if robot_first:
        comments.append(stubs.FakeComment(ROBOT, 'Hello author, ...', 1))
    if com_keys:
        comments.append(stubs.FakeComment(
            ADMIN, '@%s %s' % (ROBOT, ' '.join(com_keys)),
            len(comments) + 1))
    if approve == 1:
        comments.append(stubs.FakeComment(AUTHOR, '@%s approve' % ROBOT,
                                          len(comments) + 1))
    if poster:
        comments.append(stubs.FakeComment(
            POSTERS[poster], '@%s unanimity' % ROBOT, len(comments) + 1))
    return comments


def people_lists(people):
    parts = [u for u, s in zip(USERS, people) if s]
    apprs = [u for u, s in zip(USERS, people) if s == 2]
    crs = [u for u, s in zip(USERS, people) if s == 3]
    return parts, apprs, crs


def call_gate(job):
    import bert_e.exceptions as exc
    from bert_e.workflow import gitwaterflow as gwf
    try:
        ret = gwf.check_approvals(job)
    except exc.ApprovalRequired as e:
        if isinstance(e, exc.TemplateException) and e.code == 115:
            return 'block'
        return 'exc:ApprovalRequired?'
    except Exception as e:          # any other exception is a wrong outcome
        return 'exc:%s' % type(e).__name__
    return 'pass' if ret is None else 'ret:%r' % (ret,)


def run_comments(job):
    from bert_e.workflow import gitwaterflow as gwf
    try:
        gwf.handle_comments(job)
    except Exception as e:
        return 'exc:handle_comments:%s' % type(e).__name__
    return None


def evaluate_fresh(st, bsrc, approve, poster, people, manage_cmdline=True):
    """One case on freshly built objects (replay and cross-check path)."""
    com, sett, cmd = split_sources(bsrc, approve)
    if manage_cmdline:
        stubs.set_cmdline_options(cmd)
    try:
        parts, apprs, crs = people_lists(people)
        pr = stubs.FakePR(
            participants=parts, approvals=apprs, change_requests=crs,
            comments=make_comments(com, approve, poster,
                                   robot_first=bool(people[4])))
        job = stubs.make_job(get_settings(st, sett), pr)
        err = run_comments(job)
        return err or call_gate(job)
    finally:
        if manage_cmdline:
            stubs.reset_cmdline_options()


def want_of(st, bsrc, approve, poster, parts, apprs, crs):
    return oracle(st[0], st[1], LEADER_SETS[st[2]], st[3], parts, apprs, crs,
                  tuple(s != 0 for s in bsrc), approve != 0, approve == 2,
                  poster != 0)


def describe(verdict, failing, got, c):
    return ('review gate: statement says %s%s, code says %s on %s' % (
        {'pass': 'MUST-PASS', 'block': 'MUST-BLOCK'}.get(verdict, verdict),
        (' (unmet: %s)' % ','.join(failing)) if failing else '', got,
        json.dumps(c, sort_keys=True)))


# --------------------------------------------------------------------------
# shards
# --------------------------------------------------------------------------

class _Best:
    """Smallest failing case per signature (by JSON size, then text)."""
    def __init__(self):
        self.best = {}
        self.count = 0

    def add(self, sig, message, case):
        self.count += 1
        k = json.dumps(sig, sort_keys=True)
        txt = json.dumps(case, sort_keys=True)
        cur = self.best.get(k)
        if cur is None or (len(txt), txt) < cur[0]:
            self.best[k] = ((len(txt), txt), sig, message, case)

    def flush(self, acc):
        for k in sorted(self.best):
            _, sig, message, case = self.best[k]
            acc.violation(message, case, sig)
        acc.extra['failing_cases'] = self.count


def shard_gate(ctx, shard, acc):
    lo, step = shard
    stubs.stub_render()
    stubs.reset_cmdline_options()
    dom = domain(ctx['tier'])
    best = _Best()
    cnt = dict.fromkeys(
        ['live_' + c for c in CLAUSES] +
        ['want_pass', 'want_block', 'want_either', 'stat_excluded',
         'stat_excluded_code_blocks', 'stat_excluded_code_passes',
         'stat_excluded_disagree',
         'got_pass', 'got_block', 'either_code_passes', 'either_code_blocks',
         'unanimity_on', 'with_change_request', 'crosschecks', 'groups',
         'groups_settings_refused',
         'source_comment', 'source_setting', 'source_cmdline',
         'approve_comment', 'approve_cmdline', 'author_is_leader',
         'cr_exempt_relies_on_zero_count',
         'either_cr_author_by_approve_option',
         'either_cr_author_also_approved_on_host',
         'either_cr_all_waived_unanimity_on'], 0)
    plists = {}
    n = 0
    try:
        for gi, (st, bsrc, approve) in enumerate(groups(dom)):
            if gi % step != lo:
                continue
            cnt['groups'] += 1
            com, sett, cmd = split_sources(bsrc, approve)
            try:
                settings = get_settings(st, sett)
            except Exception as e:
                # a configuration the statement calls valid was refused:
                # that is the schema part failing, not a harness error
                c = schema_json(st[0], st[1], LEADER_SETS[st[2]])
                best.add({'part': 'schema', 'want': 'accept',
                          'got': 'exc:%s' % type(e).__name__},
                         'settings validation refused a valid configuration '
                         '(%s): %s' % (type(e).__name__,
                                       json.dumps(c, sort_keys=True)), c)
                cnt['groups_settings_refused'] += 1
                continue
            stubs.set_cmdline_options(cmd)
            for poster in dom['posters']:
                pr = stubs.FakePR(comments=make_comments(com, approve, poster))
                job = stubs.make_job(settings, pr)
                err = run_comments(job)
                before = repr(sorted(job.settings.maps[0].items(),
                                     key=lambda kv: kv[0]))
                ngroup = 0
                for people in people_states(dom, bsrc, approve, poster):
                    pl = plists.get(people)
                    if pl is None:
                        pl = plists[people] = people_lists(people)
                    parts, apprs, crs = pl
                    pr._participants, pr._approvals, pr._change_requests = pl
                    got = err or call_gate(job)
                    n += 1
                    ngroup += 1
                    if n % CROSSCHECK_EVERY == 0:
                        cnt['crosschecks'] += 1
                        got2 = evaluate_fresh(st, bsrc, approve, poster,
                                              people, manage_cmdline=False)
                        if got2 != got:
                            raise HarnessError(
                                'job re-use changed the outcome (%s vs fresh '
                                '%s) on %r' % (got, got2, case_json(
                                    st, bsrc, approve, poster, people)))
                    verdict, failing, live, tags = want_of(
                        st, bsrc, approve, poster, parts, apprs, crs)
                    nlive = 0
                    for name, on in zip(CLAUSES, live):
                        if on:
                            nlive += 1
                            cnt['live_' + name] += 1
                    for t in tags:
                        cnt[t] += 1
                    if got == 'pass':
                        cnt['got_pass'] += 1
                    elif got == 'block':
                        cnt['got_block'] += 1
                    if crs:
                        cnt['with_change_request'] += 1
                    in_quantifier = verdict != 'stat'
                    sample = None
                    if n % 4099 == 1:
                        sample = dict(case_json(st, bsrc, approve, poster,
                                                people),
                                      statement=verdict, outcome=got)
                    acc.case(case_key(st, bsrc, approve, poster, people),
                             in_quantifier and nlive >= 2, sample=sample)
                    if verdict == 'stat':
                        cnt['stat_excluded'] += 1
                        if got == 'block':
                            cnt['stat_excluded_code_blocks'] += 1
                            if not failing:
                                # the only clause the code can be failing
                                # here is its set-equality for unanimity
                                cnt['stat_excluded_disagree'] += 1
                        elif got == 'pass':
                            cnt['stat_excluded_code_passes'] += 1
                        if got in ('pass', 'block'):
                            continue
                    elif verdict == 'either':
                        cnt['want_either'] += 1
                        if got == 'pass':
                            cnt['either_code_passes'] += 1
                            continue
                        if got == 'block':
                            cnt['either_code_blocks'] += 1
                            continue
                    else:
                        cnt['want_' + verdict] += 1
                        if got == verdict:
                            continue
                    c = case_json(st, bsrc, approve, poster, people)
                    best.add({'part': 'gate', 'want': verdict, 'got': got,
                              'unmet': ','.join(failing)},
                             describe(verdict, failing, got, c), c)
                # per-group class counters (constant inside the group)
                if poster:
                    cnt['unanimity_on'] += ngroup
                for k, name in ((1, 'source_comment'), (2, 'source_setting'),
                                (3, 'source_cmdline')):
                    if k in bsrc:
                        cnt[name] += ngroup
                if approve == 1:
                    cnt['approve_comment'] += ngroup
                elif approve == 2:
                    cnt['approve_cmdline'] += ngroup
                if AUTHOR in LEADER_SETS[st[2]]:
                    cnt['author_is_leader'] += ngroup
                after = repr(sorted(job.settings.maps[0].items(),
                                    key=lambda kv: kv[0]))
                if after != before:
                    raise HarnessError(
                        'check_approvals changed the job options, job re-use '
                        'is unsound: %s -> %s' % (before, after))
    finally:
        stubs.reset_cmdline_options()
    best.flush(acc)
    for k in ('want_pass', 'want_block', 'want_either', 'stat_excluded',
              'got_pass', 'got_block', 'unanimity_on', 'with_change_request',
              'source_comment', 'source_setting', 'source_cmdline',
              'approve_comment', 'approve_cmdline', 'author_is_leader',
              'cr_exempt_relies_on_zero_count',
              'either_cr_author_by_approve_option',
              'either_cr_author_also_approved_on_host',
              'either_cr_all_waived_unanimity_on'):
        if cnt[k]:
            acc.cls(k, cnt[k])
    for c in CLAUSES:
        acc.extra['live_' + c] = cnt['live_' + c]
    acc.extra['either_cells'] = cnt['want_either']
    acc.extra['either_cells_code_passes'] = cnt['either_code_passes']
    acc.extra['either_cells_code_blocks'] = cnt['either_code_blocks']
    acc.extra['excluded_statistic_cells'] = cnt['stat_excluded']
    acc.extra['excluded_statistic_cells_code_blocks'] = \
        cnt['stat_excluded_code_blocks']
    acc.extra['excluded_statistic_cells_code_passes'] = \
        cnt['stat_excluded_code_passes']
    acc.extra['excluded_statistic_cells_statement_would_not_block'] = \
        cnt['stat_excluded_disagree']
    acc.extra['fresh_job_crosschecks'] = cnt['crosschecks']
    acc.extra['gate_cases'] = n
    acc.extra['gate_groups'] = cnt['groups']
    acc.extra['gate_groups_settings_refused'] = cnt['groups_settings_refused']


# ---- SettingsSchema sub-check ---------------------------------------------

SCHEMA_LEADER_SETS = ((), (LEADER,), (AUTHOR,), (LEADER, AUTHOR))


def schema_cases():
    for peers in (0, 1, 2, 3):
        for leaders in (0, 1, 2, 3):
            for pl in SCHEMA_LEADER_SETS:
                yield peers, leaders, pl


def schema_eval(peers, leaders, pl):
    import bert_e.exceptions as exc
    try:
        s = stubs.load_settings(required_peer_approvals=peers,
                                required_leader_approvals=leaders,
                                project_leaders=list(pl))
    except exc.MalformedSettings:
        return 'reject'
    except Exception as e:
        return 'exc:%s' % type(e).__name__
    if (s.required_peer_approvals, s.required_leader_approvals,
            [str(u) for u in s.project_leaders]) != (peers, leaders, list(pl)):
        return 'accepted-with-other-values'
    return 'accept'


def schema_want(peers, leaders, pl):
    return 'reject' if (leaders > peers or leaders > len(pl)) else 'accept'


def schema_json(peers, leaders, pl):
    return {'kind': 'schema', 'peers': peers, 'leaders': leaders,
            'project_leaders': list(pl)}


def shard_schema(ctx, shard, acc):
    n = 0
    for peers, leaders, pl in schema_cases():
        want, got = schema_want(peers, leaders, pl), \
            schema_eval(peers, leaders, pl)
        n += 1
        c = schema_json(peers, leaders, pl)
        acc.case('schema:%r' % ((peers, leaders, pl),), False,
                 sample=dict(c, statement=want, outcome=got)
                 if n == 23 else None,
                 classes=['schema_want_' + want])
        if got != want:
            acc.violation('settings validation: expected %s, got %s on %s' %
                          (want, got, json.dumps(c, sort_keys=True)), c,
                          {'part': 'schema', 'want': want, 'got': got})
    acc.extra['schema_cases'] = n


def shard_fn(ctx, shard, acc):
    if shard[0] == 'schema':
        shard_schema(ctx, shard, acc)
    else:
        shard_gate(ctx, shard[1:], acc)


def run(ctx):
    nshards = 4 * max(1, ctx['nproc'])
    shards = [('schema',)] + [('gate', i, nshards) for i in range(nshards)]
    acc = run_shards(__name__, 'shard_fn', ctx, shards, nproc=ctx['nproc'])
    dom = domain(ctx['tier'])
    expected_groups = len(settings_list(dom)) * 64 * 3
    if acc.extra.get('gate_groups') != expected_groups:
        raise HarnessError('enumeration incomplete: %r groups of %d' %
                           (acc.extra.get('gate_groups'), expected_groups))
    acc.extra['exhaustive'] = not acc.extra['gate_groups_settings_refused']
    acc.extra['domain_size'] = acc.extra['gate_cases']
    acc.extra['settings_combinations'] = len(settings_list(dom))
    return acc


def replay(ctx, case, acc):
    stubs.stub_render()
    stubs.reset_cmdline_options()
    if case.get('kind') == 'schema':
        p, l, pl = case['peers'], case['leaders'], \
            tuple(case['project_leaders'])
        want, got = schema_want(p, l, pl), schema_eval(p, l, pl)
        if want != got:
            acc.violation('settings validation: expected %s, got %s on %s' %
                          (want, got, json.dumps(case, sort_keys=True)), case,
                          {'part': 'schema', 'want': want, 'got': got})
        return
    st, bsrc, approve, poster, people = case_from_json(case)
    got = evaluate_fresh(st, bsrc, approve, poster, people)
    parts, apprs, crs = people_lists(people)
    verdict, failing, live, tags = want_of(st, bsrc, approve, poster, parts,
                                           apprs, crs)
    ok = (got == verdict) if verdict in ('pass', 'block') \
        else got in ('pass', 'block')
    if not ok:
        acc.violation(describe(verdict, failing, got, case), case,
                      {'part': 'gate', 'want': verdict, 'got': got,
                       'unmet': ','.join(failing)})
