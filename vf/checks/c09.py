"""C09 target cascade, ignored branches and fix versions.

The real BranchCascade (add_branch in a generated discovery order,
update_versions for every tag in a generated order, _update_major_versions,
finalize(dst), validate()) is fed with real branch objects made by
branch_factory on a fake repository object and compared with an oracle that
is written from the property statement only (no code of bert_e is used on the
oracle side, not even for parsing names).

Also exports the cascade builder used by C11 (real_cascade, wellformed_pool).
"""
import itertools
import re
import zlib
from collections import Counter

from vf.cli import run_shards, HarnessError

LEVEL = 'exploration'
RULE = (
    'Branch universe: majors {4,5,10} x minors {0,1}: per line any subset of '
    '{development/M.m, stabilization/M.m.1, stabilization/M.m.2, '
    'hotfix/M.m.0, hotfix/M.m.1} (32 subsets), per major development/M or '
    'not. Tag universe per line, ordered: [M.m.0, vM.m.1, M.m.0.1, M.m.2_rc1,'
    ' M.m.1.1, M.m.2] (released, v-prefixed, hotfix x.y.z.n, suffixed); L3/L5'
    '/L6 = first 3/5/6 tags. Every member of the branch set is used as '
    'destination; every case is pushed through the real BranchCascade in 3 '
    'discovery orders (natural, reversed, seeded hash permutation) of branches'
    ' and tags - single-line universes in thorough: every permutation of up '
    'to 4 branches. Sub-spaces: A = each single line (+/- development/M) with'
    ' L6, complete; B = each single major (both lines non-empty, +/- '
    'development/M), complete with L3 (quick) or L5 (thorough); C = cross-'
    'major skeleton, 6 representative line configurations per line, complete '
    '(thorough only); S = seeded sample of the full cross-major L6 space '
    'restricted to >= 2 majors (60 % of lines drawn from the well-formed line'
    ' configurations). Non-trivial = >= 3 branches with at least one '
    'stabilization or development/M branch and >= 1 tag that counts for a '
    'line or major present in the set; distinct by (branch set, tag set, '
    'destination).')
ASSUMPTIONS = [
    'the repository is in good shape (every includes_commit answers yes): '
    'only names and tags decide; git replaced by a fake object',
    'a hotfix tag x.y.z.n implies that x.y.z is released (counts like tag '
    'x.y.z for the deprecated-stabilization rule and the next patch)',
    'a stabilization branch is deprecated when a release tag of its line with '
    'micro >= its own exists (QuickTest table: stabilization/6.1.5 with tag '
    '6.1.6)',
    'EITHER cells: destination hotfix/x.y.z without any x.y.z / x.y.z.n tag; '
    'a stabilization branch x.y.z whose predecessor x.y.(z-1) is not the '
    'latest release (version gap; the pinned QuickTest expects VersionMismatch'
    ' from validate() when it is targeted, the statement lists no such '
    'ill-formed shape): rejection allowed, fix version of that line not '
    'checked, targets and ignored list still checked when accepted',
    'order of target_versions and of ignored_branches is not part of the '
    'statement: compared as multisets / sets',
]

MAJORS = (4, 5, 10)
MINORS = (0, 1)
LINES = tuple((M, m) for M in MAJORS for m in MINORS)


# --------------------------------------------------------------------------
# universe
# --------------------------------------------------------------------------
def line_branches(M, m):
    return ('development/%d.%d' % (M, m),
            'stabilization/%d.%d.1' % (M, m),
            'stabilization/%d.%d.2' % (M, m),
            'hotfix/%d.%d.0' % (M, m),
            'hotfix/%d.%d.1' % (M, m))


def line_tags(M, m):
    p = '%d.%d' % (M, m)
    return (p + '.0', 'v' + p + '.1', p + '.0.1', p + '.2_rc1', p + '.1.1',
            p + '.2')


def subset(items, mask):
    return tuple(x for i, x in enumerate(items) if mask >> i & 1)


# representative line configurations of the cross-major skeleton (bmask,tmask)
# D=1 S1=2 S2=4 H0=8 H1=16 ; tags 0:.0 1:v.1 2:.0.1 3:.2_rc1 4:.1.1 5:.2
SKELETON = ((0, 0), (1, 0), (1, 1), (1 | 2, 1), (1 | 4 | 8, 1 | 2 | 4),
            (1 | 16, 1 | 2 | 16))


# --------------------------------------------------------------------------
# oracle (from the statement)
# --------------------------------------------------------------------------
_B_DEV = re.compile(r'^development/(\d+)(?:\.(\d+))?$')
_B_STAB = re.compile(r'^stabilization/(\d+)\.(\d+)\.(\d+)$')
_B_HF = re.compile(r'^hotfix/(\d+)\.(\d+)\.(\d+)$')
_TAG = re.compile(r'^v?(\d+)\.(\d+)\.(\d+)(?:\.(\d+))?$')
_pb_cache = {}
_pt_cache = {}


class Unrecognized(Exception):
    pass


def parse_branch(name):
    try:
        return _pb_cache[name]
    except KeyError:
        pass
    m = _B_DEV.match(name)
    if m:
        r = ('dev', int(m.group(1)),
             None if m.group(2) is None else int(m.group(2)))
    else:
        m = _B_STAB.match(name)
        if m:
            r = ('stab',) + tuple(int(x) for x in m.groups())
        else:
            m = _B_HF.match(name)
            if m:
                r = ('hf',) + tuple(int(x) for x in m.groups())
            else:
                r = None
    _pb_cache[name] = r
    return r


def parse_tag(tag):
    try:
        return _pt_cache[tag]
    except KeyError:
        pass
    m = _TAG.match(tag)
    r = None
    if m:
        r = (int(m.group(1)), int(m.group(2)), int(m.group(3)),
             None if m.group(4) is None else int(m.group(4)))
    _pt_cache[tag] = r
    return r


class Info:
    """Destination independent facts about (branch set, tag set)."""
    __slots__ = ('branches', 'devs', 'majors', 'stabs', 'hfs', 'rel',
                 'relminor', 'hfrev', 'ill', 'gap', 'relevant_tag')


def analyse(branches, tags):
    i = Info()
    i.branches = tuple(branches)
    i.devs, i.majors, i.stabs, i.hfs = set(), set(), {}, set()
    for n in branches:
        p = parse_branch(n)
        if p is None:
            raise Unrecognized(n)
        if p[0] == 'dev':
            if p[2] is None:
                i.majors.add(p[1])
            else:
                i.devs.add((p[1], p[2]))
        elif p[0] == 'stab':
            i.stabs.setdefault((p[1], p[2]), []).append(p[3])
        else:
            i.hfs.add(p[1:])
    i.rel, i.relminor, i.hfrev = {}, {}, {}
    for t in tags:
        p = parse_tag(t)
        if p is None:
            continue  # suffixed or foreign tag: says nothing
        M, m, z, n = p
        i.rel[(M, m)] = max(z, i.rel.get((M, m), -1))
        i.relminor[M] = max(m, i.relminor.get(M, -1))
        i.hfrev[(M, m, z)] = max(n or 0, i.hfrev.get((M, m, z), 0))
    ill = []
    i.gap = set()
    for line in sorted(i.stabs):
        zs = i.stabs[line]
        if len(zs) > 1:
            ill.append('multi_stab')
        if line not in i.devs:
            ill.append('dangling_stab')
        latest = i.rel.get(line, -1)
        if any(z <= latest for z in zs):
            ill.append('deprecated_stab')
        elif len(zs) == 1 and zs[0] > latest + 1:
            i.gap.add(line)
    i.ill = sorted(set(ill))
    lines_present = i.devs | set(i.stabs) | set(h[:2] for h in i.hfs)
    i.relevant_tag = any(l in lines_present for l in i.rel) or \
        any(M in i.majors for M in i.relminor)
    return i


def _devkey(M, m):
    # development/x.y by (x, y), development/x after every development/x.*
    return (M, 1, 0) if m is None else (M, 0, m)


class Verdict:
    __slots__ = ('reject', 'ill', 'targets', 'ignored', 'exact', 'wild',
                 'may_reject', 'either')


def expect(i, dst):
    """What the statement demands for destination dst."""
    v = Verdict()
    v.reject = bool(i.ill)
    v.ill = i.ill
    v.either = []
    v.may_reject = False
    if v.reject:
        return v
    d = parse_branch(dst)
    others = sorted(n for n in i.branches
                    if parse_branch(n)[0] in ('dev', 'stab'))
    v.exact = Counter()
    v.wild = []
    if d[0] == 'hf':
        v.targets = [dst]
        v.ignored = set(others)
        if d[1:] in i.hfrev:
            v.exact['%d.%d.%d.%d' % (d[1], d[2], d[3],
                                      i.hfrev[d[1:]] + 1)] += 1
        else:
            v.either.append('either_hotfix_no_tag')
            v.may_reject = True
            v.wild.append('%d.%d.%d.' % d[1:])
        return v
    if d[0] == 'stab':
        start = _devkey(d[1], d[2])
        tstab = (d[1], d[2])
    else:
        start = _devkey(d[1], d[2])
        tstab = None
    devs = sorted([_devkey(M, m) + (M, m) for (M, m) in i.devs] +
                  [_devkey(M, None) + (M, None) for M in i.majors])
    targets = [dst] if d[0] == 'stab' else []
    for key in devs:
        if key[:3] < start:
            continue
        M, m = key[3], key[4]
        if m is None:
            targets.append('development/%d' % M)
            minors = [mm for (MM, mm) in (i.devs | set(i.stabs)) if MM == M]
            minors.append(i.relminor.get(M, -1))
            v.exact['%d.%d.0' % (M, max(minors) + 1)] += 1
            continue
        targets.append('development/%d.%d' % (M, m))
        line = (M, m)
        latest = i.rel.get(line, -1)
        if line == tstab:
            v.exact['%d.%d.%d' % (M, m, d[3])] += 1
            if line in i.gap:
                v.either.append('either_stab_gap')
                v.may_reject = True
        elif line in i.stabs:
            if line in i.gap:
                v.either.append('either_stab_gap')
                v.wild.append('%d.%d.' % line)
            else:
                # the stabilization holds latest+1
                v.exact['%d.%d.%d' % (M, m, latest + 2)] += 1
        else:
            v.exact['%d.%d.%d' % (M, m, latest + 1)] += 1
    v.targets = targets
    v.ignored = set(others) - set(targets)
    return v


def judge(i, v, dst, out):
    """Compare an outcome of the real code with the verdict.

    Returns None or (clause, detail)."""
    if v.reject:
        if out[0] == 'exc':
            return None
        return ('not_rejected', '+'.join(v.ill))
    if out[0] == 'exc':
        if v.may_reject and out[2]:
            return None
        return ('exception', out[1])
    _, targets, ignored, versions = out
    if list(targets) != v.targets:
        return ('targets', '')
    ign = [n for n in ignored if not n.startswith('hotfix/')]
    hf_ign = [n for n in ignored if n.startswith('hotfix/')]
    if len(set(ignored)) != len(ignored) or set(ign) != v.ignored or \
            any(n == dst or n not in i.branches for n in hf_ign):
        return ('ignored', '')
    rest = Counter(versions)
    for ver, n in v.exact.items():
        if rest[ver] != n:
            return ('versions', '')
        del rest[ver]
    rest = sorted(rest.elements())
    wild = sorted(v.wild)
    if len(rest) != len(wild) or \
            any(not r.startswith(w) for r, w in zip(rest, wild)):
        return ('versions', '')
    return None


# --------------------------------------------------------------------------
# the real thing
# --------------------------------------------------------------------------
class FakeRepo:
    """Stands for git: every ancestry question is answered 'yes'."""
    calls = 0

    def cmd(self, command, *args, **kwargs):
        FakeRepo.calls += 1
        return ''

    def includes_commit(self, commit):
        return True


_FAKE = FakeRepo()


def real_cascade(branches, tags, dst):
    """Feed the real BranchCascade as BranchCascade.build would, in the given
    discovery order. Returns the finalized, validated cascade."""
    from bert_e.workflow.gitwaterflow import branches as gwfb
    c = gwfb.BranchCascade()
    dst_branch = gwfb.branch_factory(_FAKE, dst)
    for n in branches:
        c.add_branch(gwfb.branch_factory(_FAKE, n), dst_branch)
    for t in tags:
        c.update_versions(t)
    c._update_major_versions()
    c.finalize(dst_branch)
    c.validate()
    return c


_internal = []


def run_real(branches, tags, dst):
    if not _internal:
        from bert_e import exceptions as exns
        _internal.append(exns.InternalException)
    try:
        c = real_cascade(branches, tags, dst)
    except Exception as e:  # an outcome, judged against the statement
        return ('exc', type(e).__name__, isinstance(e, _internal[0]))
    return ('ok', tuple(b.name for b in c.dst_branches),
            tuple(c.ignored_branches), tuple(c.target_versions))


def hashed(items, salt):
    return sorted(items, key=lambda n: zlib.crc32(('%s|%s' % (salt, n))
                                                  .encode()))


def orders(branches, tags, salt, full=False):
    """Discovery orders of one case."""
    tos = (list(tags), list(reversed(tags)), hashed(tags, salt + 1))
    yield list(branches), tos[0]
    yield list(reversed(branches)), tos[1]
    yield hashed(branches, salt), tos[2]
    if full and 2 <= len(branches) <= 4:
        for k, bo in enumerate(itertools.permutations(branches)):
            yield list(bo), tos[k % 3]


def norm(out):
    if out[0] == 'exc':
        return ('rej',)
    return ('ok', out[1], tuple(sorted(out[2])), tuple(sorted(out[3])))


# --------------------------------------------------------------------------
# evaluation of one (branch set, tag set) with every destination
# --------------------------------------------------------------------------
class Shard:
    def __init__(self, ctx, acc, part):
        self.acc = acc
        self.part = part
        self.salt = ctx['seed']
        self.cls = Counter()
        self.nt = 0
        self.viol = {}
        self.nt_samples = 0
        self.crash_samples = []

    def config(self, branches, tags, full=False, intkey=None):
        i = analyse(branches, tags)
        nb = len(branches)
        rich = nb >= 3 and bool(i.relevant_tag) and \
            bool(i.majors or i.stabs)
        for di, dst in enumerate(branches):
            v = expect(i, dst)
            first = None
            bad = None
            for bo, to in orders(branches, tags, self.salt, full):
                out = run_real(bo, to, dst)
                if out[0] == 'exc' and not out[2] and v.reject:
                    self.cls['rejected_by_crash'] += 1
                    ex = '%s -> %s: %s' % (sorted(branches), dst, out[1])
                    if len(branches) <= 2 and ex not in self.crash_samples:
                        self.crash_samples.append(ex)
                bad = judge(i, v, dst, out)
                if bad:
                    self.report(bad, i, v, branches, tags, dst, bo, to, out)
                    break
                n = norm(out)
                if first is None:
                    first = n
                elif n != first:
                    self.report(('order', ''), i, v, branches, tags, dst,
                                bo, to, out)
                    break
            cl = self.cls
            cl['cases_' + self.part] += 1
            cl['dst_' + parse_branch(dst)[0]] += 1
            if v.reject:
                for s in v.ill:
                    cl['ill_' + s] += 1
                cl['ill_formed'] += 1
            else:
                cl['well_formed'] += 1
                for e in set(v.either):
                    cl[e] += 1
                if first and first[0] == 'rej':
                    cl['either_cell_rejected'] += 1
            if rich:
                cl['nontrivial'] += 1
            if rich and self.nt_samples < 3 and not v.reject:
                self.nt_samples += 1
                self.acc.case(
                    repr((sorted(branches), sorted(tags), dst)), True,
                    sample={'branches': list(branches), 'tags': list(tags),
                            'dst': dst, 'outcome': first,
                            'expected_targets': v.targets,
                            'expected_versions': sorted(v.exact.elements()),
                            'part': self.part})
            elif intkey is not None:
                self.acc.case(intkey * 64 + di, rich)
            else:
                self.acc.evaluations += 1
                if rich:
                    self.nt += 1

    def report(self, bad, i, v, branches, tags, dst, bo, to, out):
        clause, detail = bad
        if v.reject:
            want = 'rejected (%s)' % '+'.join(v.ill)
        else:
            want = 'targets=%s ignored=%s versions=%s%s%s' % (
                v.targets, sorted(v.ignored), sorted(v.exact.elements()),
                ' +any(%s)' % v.wild if v.wild else '',
                ' or rejected' if v.may_reject else '')
        sig = {'clause': clause, 'detail': detail,
               'dst_kind': parse_branch(dst)[0]}
        case = {'branches': list(branches), 'tags': list(tags), 'dst': dst,
                'salt': self.salt, 'discovery': [list(bo), list(to)]}
        msg = ('cascade: branches=%s tags=%s dst=%s (discovery order %s / %s)'
               ': statement wants %s; code gave %s [%s]'
               % (sorted(branches), sorted(tags), dst, bo, to, want, out,
                  clause))
        self.cls['violating_cases'] += 1
        key = repr(sorted(sig.items()))
        size = (len(branches) + len(tags), len(repr(case)))
        if key not in self.viol or size < self.viol[key][0]:
            self.viol[key] = (size, msg, case, sig)

    def close(self):
        for _, msg, case, sig in self.viol.values():
            self.acc.violation(msg, case, sig)
        for k, n in self.cls.items():
            self.acc.cls(k, n)
        self.acc.extra['nt_by_construction'] = self.nt
        self.acc.extra['rejected_by_crash_examples'] = self.crash_samples


def _mix(x):
    # splitmix64
    x = (x + 0x9E3779B97F4A7C15) & 0xFFFFFFFFFFFFFFFF
    x = ((x ^ (x >> 30)) * 0xBF58476D1CE4E5B9) & 0xFFFFFFFFFFFFFFFF
    x = ((x ^ (x >> 27)) * 0x94D049BB133111EB) & 0xFFFFFFFFFFFFFFFF
    return x ^ (x >> 31)


_wf_cache = {}


def wellformed_line_configs():
    """(bmask, tmask) of the L6 line universe that are well-formed on their
    own (computed by the oracle on line (4,0))."""
    if 'wf' not in _wf_cache:
        B, T = line_branches(4, 0), line_tags(4, 0)
        out = []
        for bm in range(1, 32):
            for tm in range(64):
                if not analyse(subset(B, bm), subset(T, tm)).ill:
                    out.append((bm, tm))
        _wf_cache['wf'] = out
    return _wf_cache['wf']


def draw_config(rnd):
    """One cross-major configuration from 64-bit words of rnd()."""
    wf = wellformed_line_configs()
    branches, tags, masks = [], [], []
    for (M, m) in LINES:
        r = rnd()
        u = r % 100
        r >>= 8
        if u < 30:
            bm, tm = 0, r % 64
        elif u < 90:
            bm, tm = wf[r % len(wf)]
        else:
            bm, tm = r % 32, (r >> 8) % 64
        masks.append((bm, tm))
        branches.extend(subset(line_branches(M, m), bm))
        tags.extend(subset(line_tags(M, m), tm))
    fl = rnd() % 8
    for k, M in enumerate(MAJORS):
        if fl >> k & 1:
            branches.append('development/%d' % M)
    return branches, tags, masks, fl


def shard_fn(ctx, shard, acc):
    kind = shard[0]
    thorough = ctx['tier'] == 'thorough'
    if kind == 'line':
        _, M, m = shard
        sh = Shard(ctx, acc, 'A_single_line')
        B, T = line_branches(M, m), line_tags(M, m)
        for bm in range(32):
            for tm in range(64):
                for f in (0, 1):
                    br = subset(B, bm) + (('development/%d' % M,) if f else ())
                    if br:
                        sh.config(br, subset(T, tm), full=thorough)
        sh.close()
    elif kind == 'major':
        _, M, lo, step, nt = shard
        sh = Shard(ctx, acc, 'B_single_major')
        B0, T0 = line_branches(M, 0), line_tags(M, 0)[:nt]
        B1, T1 = line_branches(M, 1), line_tags(M, 1)[:nt]
        nl = 32 << nt
        for c0 in range(1 + lo, nl, step):  # 0 = empty line: part A
            b0, t0 = subset(B0, c0 & 31), subset(T0, c0 >> 5)
            for c1 in range(1, nl):
                b1, t1 = subset(B1, c1 & 31), subset(T1, c1 >> 5)
                for f in (0, 1):
                    br = b0 + b1 + (('development/%d' % M,) if f else ())
                    if br:
                        sh.config(br, t0 + t1)
        sh.close()
    elif kind == 'skeleton':
        _, lo, step = shard
        sh = Shard(ctx, acc, 'C_cross_major_skeleton')
        K = len(SKELETON)
        for idx in range(lo, K ** 6 * 8, step):
            fl, x = idx % 8, idx // 8
            br, tg, used = [], [], set()
            for (M, m) in LINES:
                bm, tm = SKELETON[x % K]
                x //= K
                if bm or tm:
                    used.add(M)
                br.extend(subset(line_branches(M, m), bm))
                tg.extend(subset(line_tags(M, m), tm))
            for k, M in enumerate(MAJORS):
                if fl >> k & 1:
                    br.append('development/%d' % M)
                    used.add(M)
            if len(used) >= 2 and br:
                sh.config(br, tg)
        sh.close()
    elif kind == 'sample':
        _, idx, count = shard
        sh = Shard(ctx, acc, 'S_cross_major_sample')
        state = [_mix(ctx['seed'] * 1000 + idx)]

        def rnd():
            state[0] = _mix(state[0])
            return state[0]
        skel = set(SKELETON)
        done = 0
        while done < count:
            br, tg, masks, fl = draw_config(rnd)
            used = set(M for (M, m), (bm, tm) in zip(LINES, masks)
                       if bm or tm)
            used |= set(M for k, M in enumerate(MAJORS) if fl >> k & 1)
            if len(used) < 2 or not br:
                continue  # parts A and B
            if thorough and all(x in skel for x in masks):
                continue  # part C
            key = fl
            for bm, tm in masks:
                key = key * 2048 + bm * 64 + tm
            before = acc.evaluations
            sh.config(br, tg, intkey=key)
            done += acc.evaluations - before
        sh.close()
    else:
        raise HarnessError('unknown shard %r' % (shard,))


# --------------------------------------------------------------------------
# self-test of the oracle: the QuickTest tables of bert_e/tests/test_bert_e.py
# (transcribed: input, ignore flags, fix versions, expected exception)
# --------------------------------------------------------------------------
def _t(dst, branches, tags, fixver=None, exc=None, validate_exc=None):
    return dict(dst=dst, branches=branches, tags=tags, fixver=fixver, exc=exc,
                validate_exc=validate_exc)


_C5 = [('stabilization/4.3.18', 1), ('development/4.3', 1),
       ('stabilization/5.1.4', 1), ('development/5.1', 1),
       ('development/10.0', 1)]


def _flags(names, targets):
    return [(n, 0 if n in targets else 1) for n in names]


_N5 = ['stabilization/4.3.18', 'development/4.3', 'stabilization/5.1.4',
       'development/5.1', 'development/10.0']
_NHF = ['stabilization/4.3.18', 'development/4.3', 'stabilization/5.1.4',
        'development/5.1', 'hotfix/6.6.5', 'hotfix/6.6.6', 'hotfix/6.6.7',
        'development/6.6', 'hotfix/10.0.3', 'hotfix/10.0.4',
        'development/10.0']
_NM7 = ['stabilization/4.3.18', 'development/4.3', 'development/4',
        'stabilization/5.1.4', 'development/5.1', 'development/10.0',
        'development/10']
_TG = ['4.3.16', '4.3.17', '4.3.18_rc1', '5.1.3', '5.1.4_rc1']
_TV = ['4.3.16', '4.3.17', '4.3.18_rc1', 'v5.1.3', 'v5.1.4_rc1', 'v10.0.1']
_UBP = 'UnrecognizedBranchPattern'

QUICKTEST_TABLES = [
    _t('master', [('master', 1)], [], [], _UBP),
    _t('development/1.0', [('master', 1), ('development/1.0', 1)], [], [],
       _UBP),
    _t('stabilization/4.3.18',
       _flags(_N5, ['stabilization/4.3.18', 'development/4.3',
                    'development/5.1', 'development/10.0']),
       _TG, ['4.3.18', '5.1.5', '10.0.0']),
    _t('stabilization/5.1.4',
       _flags(_N5, ['stabilization/5.1.4', 'development/5.1',
                    'development/10.0']),
       ['4.3.16', '4.3.17', '4.3.18_t', '5.1.3', '5.1.4_rc1', '10.0.0'],
       ['5.1.4', '10.0.1']),
    _t('development/4.3',
       _flags(_N5, ['development/4.3', 'development/5.1', 'development/10.0']),
       ['4.3.18_rc1', '5.1.3', '5.1.4_rc1', '4.3.16', '4.3.17'],
       ['4.3.19', '5.1.5', '10.0.0']),
    _t('development/5.1',
       _flags(_N5, ['development/5.1', 'development/10.0']),
       _TG, ['5.1.5', '10.0.0']),
    _t('development/10.0', _flags(_N5, ['development/10.0']), _TG,
       ['10.0.0']),
    _t('hotfix/6.6.6', _flags(_NHF, ['hotfix/6.6.6']),
       _TG + ['6.6.6', '10.0.3.1'], ['6.6.6.1']),
    _t('hotfix/6.6.6', _flags(_NHF, ['hotfix/6.6.6']),
       _TG + ['6.6.6.0', '10.0.3.1'], ['6.6.6.1']),
    _t('hotfix/6.6.6', _flags(_NHF, ['hotfix/6.6.6']),
       _TG + ['6.6.6.1', '10.0.3.1'], ['6.6.6.2']),
    _t('hotfix/6.6.6', _flags(_NHF, ['hotfix/6.6.6']),
       _TG + ['6.6.6.1', '6.6.6.2', '10.0.3.1'], ['6.6.6.3']),
    _t('hotfix/4.3.18',
       [('stabilization/4.3.18', 1), ('development/4.3', 1),
        ('hotfix/4.3.18', 0)],
       ['4.3.16', '4.3.17', '4.3.18'], ['4.3.18.1'],
       'DeprecatedStabilizationBranch'),
    _t('stabilization/4.3.18',
       [('stabilization/4.3.18', 0), ('development/4.3', 0),
        ('hotfix/4.3.18', 1)],
       ['4.3.16', '4.3.17', '4.3.18'], ['4.3.18'],
       'DeprecatedStabilizationBranch'),
    _t('hotfix/4.3.18',
       [('stabilization/4.3.19', 1), ('development/4.3', 1),
        ('hotfix/4.3.18', 0)], ['4.3.18'], ['4.3.18.1']),
    _t('development/10.0',
       [('stabilization/10.0', 1), ('development/10.0', 0)], ['10.0.0'],
       ['10.0.1'], _UBP),
    _t('stabilization/10.0',
       [('stabilization/10.0', 0), ('development/10.0', 0)], ['10.0.0'],
       ['10.0.1'], _UBP),
    _t('development/5.1',
       [('stabilization/4.3.18', 0), ('development/5.1', 0)],
       ['4.3.17', '5.1.3'], ['5.1.4'], 'DevBranchDoesNotExist'),
    _t('stabilization/4.3.18',
       [('stabilization/4.3.18', 0), ('development/5.1', 0)],
       ['4.3.17', '5.1.3'], ['4.3.18', '5.1.4'], 'DevBranchDoesNotExist'),
    _t('stabilization/4.3.18',
       [('stabilization/4.3.17', 1), ('stabilization/4.3.18', 0),
        ('development/4.3', 0)], [], [], 'UnsupportedMultipleStabBranches'),
    _t('development/4.3.17', [('development/4.3.17', 0)], [], [], _UBP),
] + [
    _t('development/10.0',
       [('development/5.1', 1), ('development/10.0', 0)], tags, fixver)
    for tags, fixver in [
        ([], ['10.0.0']), (['toto'], ['10.0.0']),
        (['toto', '10.0.2'], ['10.0.3']), (['10.0.15_rc1'], ['10.0.0']),
        (['10.0.15_rc1', '4.2.1', '10.0.0'], ['10.0.1']),
        (['10.0.15_rc1', '10.0.0', '5.1.4', '10.0.1'], ['10.0.2']),
        (['10.0.4000'], ['10.0.4001']),
        (['10.0.4000', '10.0.3999'], ['10.0.4001'])]
] + [
    _t('stabilization/6.1.5',
       [('stabilization/6.1.5', 0), ('development/6.1', 0)], [], ['6.1.5'],
       validate_exc='VersionMismatch'),
    _t('stabilization/6.1.5',
       [('stabilization/6.1.5', 0), ('development/6.1', 0)], ['6.1.4'],
       ['6.1.5']),
    _t('stabilization/6.1.5',
       [('stabilization/6.1.5', 0), ('development/6.1', 0)], ['6.1.5'], [],
       'DeprecatedStabilizationBranch'),
    _t('stabilization/6.1.5',
       [('stabilization/6.1.5', 0), ('development/6.1', 0)], ['6.1.6'], [],
       'DeprecatedStabilizationBranch'),
    _t('development/4.3',
       _flags(_N5, ['development/4.3', 'development/5.1', 'development/10.0']),
       ['4.3.16', '4.3.17', '4.3.18_rc1', 'v5.1.3', 'v5.1.4_rc1', 'v10.0.1'],
       ['4.3.19', '5.1.5', '10.0.2']),
    _t('development/4.3',
       _flags(_N5, ['development/4.3', 'development/5.1', 'development/10.0']),
       ['v4.3.16', 'v4.3.17', 'v4.3.18_rc1', 'v5.1.3', 'v5.1.4_rc1',
        'v10.0.1'], ['4.3.19', '5.1.5', '10.0.2']),
    _t('development/4.3',
       _flags(_NM7, ['development/4.3', 'development/4', 'development/5.1',
                     'development/10.0', 'development/10']),
       _TV, ['4.3.19', '4.4.0', '5.1.5', '10.0.2', '10.1.0']),
    _t('development/4', [('development/4.3', 1), ('development/4', 0)], _TV,
       ['4.4.0']),
    _t('development/4', [('development/4', 0)], _TV, ['4.4.0']),
    _t('development/4.3',
       _flags(_NM7, ['development/4.3', 'development/4', 'development/5.1',
                     'development/10.0', 'development/10']),
       ['4.3.16', '4.3.17', '4.3.18_rc1', 'v5.1.3', 'v5.1.4_rc1'],
       ['4.3.19', '4.4.0', '5.1.5', '10.0.0', '10.1.0']),
    _t('stabilization/6.1.5',
       [('stabilization/6.1.5', 0), ('development/6', 0)], [],
       ['6.1.5', '6.2.0'], 'DevBranchDoesNotExist'),
]


def selftest():
    """The oracle must admit what every QuickTest table says. Returns the
    number of tables checked; raises HarnessError otherwise."""
    for n, t in enumerate(QUICKTEST_TABLES):
        names = [b for b, _ in t['branches']]
        where = 'QuickTest table #%d (dst %s)' % (n, t['dst'])
        try:
            i = analyse(names, t['tags'])
            if parse_branch(t['dst']) is None:
                raise Unrecognized(t['dst'])
        except Unrecognized:
            if t['exc'] != _UBP:
                raise HarnessError('%s: oracle does not know a name' % where)
            continue
        if t['exc'] == _UBP:
            raise HarnessError('%s: oracle accepts a bad name' % where)
        v = expect(i, t['dst'])
        if t['exc']:
            out = ('exc', t['exc'], True)
        elif t['validate_exc']:
            # finalize gives the table's result, validate() then rejects
            out = ('exc', t['validate_exc'], True)
            fin = ('ok', tuple(b for b, ig in t['branches'] if not ig),
                   tuple(b for b, ig in t['branches']
                         if ig and not b.startswith('hotfix/')),
                   tuple(t['fixver']))
            bad = judge(i, v, t['dst'], fin)
            if bad:
                raise HarnessError('%s: oracle disagrees with the finalize '
                                   'result: %s' % (where, bad,))
        else:
            out = ('ok', tuple(b for b, ig in t['branches'] if not ig),
                   tuple(b for b, ig in t['branches']
                         if ig and not b.startswith('hotfix/')),
                   tuple(t['fixver']))
        bad = judge(i, v, t['dst'], out)
        if bad:
            raise HarnessError('%s: oracle disagrees: %s' % (where, bad,))
        if out[0] == 'ok' and (v.wild or v.may_reject):
            raise HarnessError('%s: oracle leaves a pinned cell open' % where)
        if out[0] == 'ok' and t['fixver'] != [
                x for x in _ordered_versions(i, v, t['dst'])]:
            raise HarnessError('%s: version order differs' % where)
    return len(QUICKTEST_TABLES)


def _ordered_versions(i, v, dst):
    """Oracle versions in cascade order (only used by the self-test, where
    the tables list them in that order)."""
    def key(s):
        return tuple(int(x) for x in s.split('.'))
    return sorted(v.exact.elements(), key=key)


# --------------------------------------------------------------------------
# pool of finalized cascades for C11
# --------------------------------------------------------------------------
def wellformed_pool():
    """Deterministic list of (branches, tags, dst) that the oracle accepts,
    with distinct (sorted expected versions, destination kind); drawn from
    parts A, the skeleton C and a fixed sample. Used by C11."""
    seen, pool = set(), []

    def consider(br, tg):
        i = analyse(br, tg)
        if i.ill:
            return
        for dst in br:
            v = expect(i, dst)
            if v.wild or v.may_reject:
                continue
            k = (tuple(sorted(v.exact.elements())), parse_branch(dst)[0],
                 len(v.targets))
            if k not in seen:
                seen.add(k)
                pool.append((list(br), list(tg), dst))
    B, T = line_branches(4, 1), line_tags(4, 1)
    for bm in range(1, 32):
        for tm in range(64):
            for f in (0, 1):
                consider(subset(B, bm) + (('development/4',) if f else ()),
                         subset(T, tm))
    state = [_mix(20261004)]

    def rnd():
        state[0] = _mix(state[0])
        return state[0]
    for _ in range(3000):
        br, tg, _, _ = draw_config(rnd)
        if br:
            consider(br, tg)
    return pool


# --------------------------------------------------------------------------
def run(ctx):
    ntab = selftest()
    thorough = ctx['tier'] == 'thorough'
    shards = []
    for (M, m) in LINES:
        shards.append(('line', M, m))
    nt = 5 if thorough else 3
    step = 64 if thorough else 16
    for M in MAJORS:
        for lo in range(step):
            shards.append(('major', M, lo, step, nt))
    if thorough:
        for lo in range(64):
            shards.append(('skeleton', lo, 64))
    nsample = 64 if thorough else 32
    per = (2000000 if thorough else 200000) // nsample
    for k in range(nsample):
        shards.append(('sample', k, per))
    # long shards first
    shards.sort(key=lambda s: {'major': 0, 'skeleton': 1, 'sample': 2,
                               'line': 3}[s[0]])
    acc = run_shards(__name__, 'shard_fn', ctx, shards, ctx['nproc'])
    acc.extra['selftest_quicktest_tables'] = ntab
    acc.extra['exhaustive'] = False
    acc.extra['complete_subspaces'] = [
        'A: every single line (6 lines) x 32 branch subsets x 64 tag subsets'
        ' (L6) x development/M in/out x every destination' +
        (' x every permutation of <=4 branches' if thorough else ''),
        'B: every single major (3) with both lines non-empty: (32 branch '
        'subsets x %d tag subsets (L%d))^2 x development/M in/out x every '
        'destination' % (1 << nt, nt)] + ([
            'C: cross-major skeleton: 6 representative line configurations ^ '
            '6 lines x 8 development/M subsets, >= 2 majors, every '
            'destination'] if thorough else [])
    acc.extra['sampled_subspaces'] = [
        'S: full cross-major L6 space (>= 2 majors), %d cases, seed %d'
        % (per * nsample, ctx['seed'])]
    n_nt = acc.extra.pop('nt_by_construction', 0) + len(acc.nontrivial)
    acc.extra['distinct_nontrivial'] = n_nt
    acc.nontrivial = range(n_nt)  # only its len() is used by cli.finish
    if acc.classes.get('well_formed', 0) * 5 < acc.evaluations:
        acc.notes.append('well-formed share below 20 % of all cases: '
                         'ill-formed shapes dominate the exhaustive parts')
    return acc


def replay(ctx, case, acc):
    selftest()
    br, tg, dst = case['branches'], case['tags'], case['dst']
    sh = Shard({'seed': case.get('salt', 1)}, acc, 'replay')
    i = analyse(br, tg)
    v = expect(i, dst)
    first = None
    todo = list(orders(br, tg, sh.salt, full=True))
    if case.get('discovery'):
        todo.insert(0, tuple(case['discovery']))
    for bo, to in todo:
        out = run_real(bo, to, dst)
        bad = judge(i, v, dst, out)
        if bad:
            sh.report(bad, i, v, br, tg, dst, bo, to, out)
            break
        if first is None:
            first = norm(out)
        elif norm(out) != first:
            sh.report(('order', ''), i, v, br, tg, dst, bo, to, out)
            break
    for _, msg, c, sig in sh.viol.values():
        acc.violation(msg, c, sig)
