"""C13: the server never loses an event and its worker never dies.

Real BertE.put_job / process_task / Job.__eq__ run in real threads under the
owned scheduler of vf.sched (one park point per source line of
bert_e/bert_e.py and bert_e/job.py).  BertE.process is replaced by a recorder
that marks the start of each evaluation and then draws the job's outcome from
the case.  See DESIGN.md E3 / C13.
"""
import collections
import importlib
import inspect
import json
import logging
import os
import pkgutil
import queue
import sys
import traceback
from types import SimpleNamespace

from vf import sched as S
from vf import stubs
from vf.cli import HarnessError, jhash, run_shards

LEVEL = 'exploration'
RULE = ('a case = up to 3 webhook threads x <=2 deliveries x <=2 keys (PR ids '
        'and/or commit shas) + the worker thread, a list of job outcomes and '
        'a schedule at source-line granularity of bert_e/bert_e.py and '
        'bert_e/job.py (quick: Hypothesis-generated PCT / sparse / dense '
        'schedules; thorough: additionally every schedule with <= 2 '
        'preemptions of fixed 3x2x2 configurations). non-trivial = some '
        'put_job is interrupted by a step of another thread after its first '
        'line (the membership test) started and before its put / its return '
        '(this includes the worker dequeuing in that window); distinct by the '
        'hash of (keys, outcomes used, executed step trace). Part W (Flask '
        'handlers in front of put_job): every pair of deliveries on one key '
        '(same commit in every build state, same pull request, API orders; '
        'both hosts) with and without a drain in between, plus generated '
        'sequences of <= 9 deliveries / drains through the real application '
        'with the real put_job and process_task; oracle = the job the same '
        'delivery enqueues on a pristine application must be enqueued (or an '
        'equal one still be waiting) and evaluated afterwards; non-trivial = '
        'a delivery whose job was already done once, or that follows another '
        'state of the same key.')
ASSUMPTIONS = [
    'interleavings at source-line granularity inside bert_e.py and job.py; '
    'queue.Queue, deque and logging internals run atomically per line',
    'BertE is built by its real __init__ with client_factory and '
    'GitRepository replaced by inert doubles; BertE.process is a recorder '
    '(an evaluation takes no scheduler step); template rendering stubbed',
    'webhook threads stand for the Flask handlers: they build the job '
    'beforehand and call bert_e.put_job(job) exactly as webhook.py and '
    'api/base.py do; an exception out of put_job is a 500, not an accepted '
    'request',
    'the worker is `while True: bert_e.process_task()` of server/__init__.py'
    ': any exception leaving process_task ends the thread',
    'BaseException outcomes (SystemExit, KeyboardInterrupt) are out of domain',
]

KEY_UNIVERSES = [('pr:1', 'pr:2'), ('pr:1', 'sha:a'), ('sha:a', 'sha:b'),
                 ('pr:7', 'pr:7')]
SHAS = {'a': 'a' * 40, 'b': 'b' * 12}

_STATE = {}


# --------------------------------------------------------------------------
# outcome domain
# --------------------------------------------------------------------------

LIB_OUTCOMES = [
    ('lib:builtins.Exception', lambda: Exception('boom')),
    ('lib:builtins.KeyError', lambda: KeyError('missing')),
    ('lib:builtins.ValueError', lambda: ValueError('bad value')),
    ('lib:builtins.AssertionError', lambda: AssertionError()),
    ('lib:builtins.StopIteration', lambda: StopIteration()),
    ('lib:builtins.RecursionError', lambda: RecursionError('deep')),
    ('lib:builtins.MemoryError', lambda: MemoryError()),
    ('lib:builtins.OSError', lambda: OSError(28, 'No space left on device')),
    ('lib:builtins.UnicodeDecodeError',
     lambda: UnicodeDecodeError('utf-8', b'\xff', 0, 1, 'invalid')),
    ('lib:builtins.ExceptionGroup',
     lambda: ExceptionGroup('many', [ValueError(1), KeyError(2)])),
    ('lib:subprocess.CalledProcessError',
     lambda: __import__('subprocess').CalledProcessError(-9, ['git'])),
    ('lib:subprocess.TimeoutExpired',
     lambda: __import__('subprocess').TimeoutExpired(['git'], 5)),
    ('lib:marshmallow.ValidationError',
     lambda: __import__('marshmallow').ValidationError({'a': ['bad']})),
    ('lib:requests.ConnectionError',
     lambda: __import__('requests').ConnectionError('reset')),
    ('lib:requests.HTTPError',
     lambda: __import__('requests').HTTPError('502')),
    ('lib:jira.JIRAError',
     lambda: __import__('jira').JIRAError(status_code=500, text='oops')),
]

SYN_BASES = {
    'Exception': lambda: Exception,
    'SilentException': lambda: _exc().SilentException,
    'JobFailure': lambda: _exc().JobFailure,
    'InternalException': lambda: _exc().InternalException,
    'BertE_Exception': lambda: _exc().BertE_Exception,
    'QueueValidationError': lambda: _exc().QueueValidationError,
    'SchemaError': lambda: importlib.import_module(
        'bert_e.lib.schema').SchemaError,
    'ValidationError': lambda: importlib.import_module(
        'marshmallow').ValidationError,
}
SYN_STR = ['plain', 'returns_none', 'returns_int', 'raises_value_error',
           'raises_type_error', 'raises_self_class', 'repr_raises',
           'str_and_repr_raise']


def _exc():
    return importlib.import_module('bert_e.exceptions')


def _syn_class(base_name, mode):
    base = SYN_BASES[base_name]()
    ns = {}
    if mode == 'returns_none':
        ns['__str__'] = lambda self: None
    elif mode == 'returns_int':
        ns['__str__'] = lambda self: 7
    elif mode == 'raises_value_error':
        def _s(self):
            raise ValueError('no text for you')
        ns['__str__'] = _s
    elif mode == 'raises_type_error':
        def _s(self):
            raise TypeError('no text for you')
        ns['__str__'] = _s
    elif mode == 'raises_self_class':
        def _s(self):
            raise type(self)('x')
        ns['__str__'] = _s
    elif mode == 'repr_raises':
        def _r(self):
            raise ValueError('no repr for you')
        ns['__repr__'] = _r
    elif mode == 'str_and_repr_raise':
        def _s(self):
            raise ValueError('no text for you')
        ns['__str__'] = _s
        ns['__repr__'] = _s
    return type('Syn%s_%s' % (base_name, mode), (base,), ns)


def _construct(cls):
    """Instantiate an exception class of the repository with dummy arguments
    (first filling that works); None if nothing works."""
    try:
        sig = inspect.signature(cls.__init__)
    except (TypeError, ValueError):
        sig = None
    fills = ['x', (4, 3), 1, ['x']]
    attempts = []
    if sig is not None:
        params = list(sig.parameters.values())[1:]
        req = [p for p in params if p.default is p.empty and p.kind in
               (p.POSITIONAL_ONLY, p.POSITIONAL_OR_KEYWORD)]
        kwonly = [p for p in params if p.default is p.empty and
                  p.kind == p.KEYWORD_ONLY]
        has_kw = any(p.kind == p.VAR_KEYWORD for p in params)
        for f in fills:
            kw = {p.name: f for p in kwonly}
            if has_kw:
                kw['active_options'] = []
            attempts.append(([f] * len(req), kw))
            if any(p.name == 'active_options' for p in req):
                attempts.append(([[] if p.name == 'active_options' else f
                                  for p in req], kw))
    attempts.append(([], {}))
    attempts.append((['x'], {}))
    for args, kw in attempts:
        try:
            inst = cls(*args, **kw)
        except Exception:
            continue
        if isinstance(inst, Exception):
            return (args, kw)
    return None


def outcome_table():
    """{name: factory} - a pure function of the tree under test."""
    if 'outcomes' in _STATE:
        return _STATE['outcomes']
    stubs.stub_render()
    import bert_e
    table = collections.OrderedDict()
    table['ok'] = None
    classes = {}
    skip = ('bert_e.tests', 'bert_e.server', 'bert_e.bin', 'bert_e.docs')
    names = ['bert_e.exceptions']
    for m in pkgutil.walk_packages(bert_e.__path__, 'bert_e.',
                                   onerror=lambda n: None):
        if m.name.startswith(skip) or m.name.endswith('__main__'):
            continue
        names.append(m.name)
    unconstructible = []
    for name in sorted(set(names)):
        try:
            mod = importlib.import_module(name)
        except Exception:
            continue
        for n, c in sorted(vars(mod).items()):
            if inspect.isclass(c) and issubclass(c, Exception) and \
                    c.__module__ == name:
                classes['cls:%s:%s' % (name, c.__qualname__)] = c
    for key in sorted(classes):
        cls = classes[key]
        how = _construct(cls)
        if how is None:
            unconstructible.append(key)
            continue
        table[key] = (lambda cls=cls, how=how: cls(*how[0], **how[1]))
    for key, fac in LIB_OUTCOMES:
        try:
            if isinstance(fac(), Exception):
                table[key] = fac
        except Exception:
            unconstructible.append(key)
    for b in sorted(SYN_BASES):
        for mode in SYN_STR:
            key = 'syn:%s:%s' % (b, mode)
            try:
                cls = _syn_class(b, mode)
                how = _construct(cls)
            except Exception:
                how = None
            if how is None:
                unconstructible.append(key)
                continue
            table[key] = (lambda cls=cls, how=how: cls(*how[0], **how[1]))
    _STATE['outcomes'] = table
    _STATE['unconstructible'] = unconstructible
    return table


def outcome_kind(name):
    """Coarse class of an outcome, for the coverage distribution."""
    if name == 'ok':
        return 'ok'
    fac = outcome_table()[name]
    e = fac()
    x = _exc()
    if isinstance(e, x.TemplateException):
        return 'template'
    if isinstance(e, x.SilentException):
        return 'silent'
    if isinstance(e, x.InternalException):
        return 'internal'
    if isinstance(e, x.BertE_Exception):
        return 'berte_other'
    return 'arbitrary'


def str_fails(exc):
    old = sys.stdout
    sys.stdout = _Null()
    try:
        return not isinstance(str(exc), str)
    except Exception:
        return True
    finally:
        sys.stdout = old


def _size(nc):
    """Order used to pick / shrink failing cases."""
    ch = nc['sched']['choices']
    rank = {'ok': 0, 'cls': 1, 'lib': 2, 'syn': 3}
    return (sum(len(t) for t in nc['threads']), len(nc['outcomes']),
            sum(1 for c in ch if c), len(ch),
            sum(rank[o.split(':')[0]] for o in nc['outcomes']),
            bool(nc['log']), len(json.dumps(nc)))


class _Null:
    def write(self, s):
        return len(s)

    def flush(self):
        pass


def run_case(case, put_job_override=None):
    """Execute one case (stdout of the code under test is dropped: e.g.
    SchemaError.__str__ prints)."""
    old = sys.stdout
    sys.stdout = _Null()
    try:
        return _run_case(case, put_job_override)
    finally:
        sys.stdout = old


# --------------------------------------------------------------------------
# the system under the scheduler
# --------------------------------------------------------------------------

class SchedQueue(queue.Queue):
    """queue.Queue that tells the harness about put/get (no behaviour change).
    A get() on an empty queue would block for ever under the scheduler; the
    worker double never does that (it waits at its loop guard instead)."""
    hook = None

    def put(self, item, *a, **kw):
        queue.Queue.put(self, item, *a, **kw)
        if self.hook:
            self.hook('put', item)

    def get(self, *a, **kw):
        if not self.queue:
            raise S.Abort('task_queue.get() on an empty queue: this shape of '
                          'process_task is not supported by the harness')
        item = queue.Queue.get(self, *a, **kw)
        if self.hook:
            self.hook('get', item)
        return item


class _GitDouble:
    def __init__(self, url, mask_pwd=None):
        self.tmp_directory = '/nonexistent/c13'

    def reset(self):
        pass


class _FmtHandler(logging.Handler):
    """Formats every record like the server's stream handler would (so that
    str(job)/repr(job) run, inside logging's own try/except) and drops it.
    No handler lock: a thread parked inside repr(job) must not block others."""
    fmt = logging.Formatter('%(levelname)-8s - %(name)s: %(message)s')
    failures = 0

    def createLock(self):
        self.lock = None

    def emit(self, record):
        try:
            self.fmt.format(record)
        except Exception:
            _FmtHandler.failures += 1


def _setup_logging(enabled):
    lg = logging.getLogger('bert_e')
    if _STATE.get('log_handler') is None:
        _STATE['log_handler'] = _FmtHandler()
        lg.handlers = [_STATE['log_handler']]
        lg.propagate = False
    want = logging.INFO if enabled else logging.CRITICAL + 10
    if lg.level != want:
        lg.setLevel(want)


def traced_files():
    if 'traced' not in _STATE:
        import bert_e.bert_e as bb
        import bert_e.job as bj
        _STATE['traced'] = {
            bb.__file__: 'bert_e.py', bj.__file__: 'job.py'}
        for f in _STATE['traced']:
            if not os.path.exists(f):
                raise HarnessError('traced file missing: %s' % f)
    return _STATE['traced']


def build_bert_e():
    import bert_e.bert_e as bb
    if not _STATE.get('patched'):
        def client_factory(*a, **kw):
            def get_repository(owner, slug):
                return SimpleNamespace(
                    full_name='%s/%s' % (owner, slug), owner=owner, slug=slug,
                    git_url='git://nowhere/%s/%s' % (owner, slug))
            return SimpleNamespace(login=stubs.ROBOT,
                                   get_repository=get_repository)
        bb.client_factory = client_factory
        bb.GitRepository = _GitDouble
        bb.Queue = SchedQueue
        stubs.stub_render()
        _STATE['patched'] = True
    berte = bb.BertE(stubs.load_settings())
    if not isinstance(getattr(berte, 'task_queue', None), SchedQueue):
        raise HarnessError('BertE.__init__ did not build task_queue from '
                           'bert_e.bert_e.Queue; harness needs an update')
    return berte


def make_job(berte, key):
    from bert_e.job import CommitJob, PullRequestJob
    kind, _, val = key.partition(':')
    if kind == 'pr':
        return PullRequestJob(
            bert_e=berte,
            pull_request=SimpleNamespace(id=int(val), author=stubs.AUTHOR))
    if kind == 'sha':
        return CommitJob(bert_e=berte, commit=SHAS[val])
    raise HarnessError('bad key %r' % key)


def chooser_of(spec):
    kind = spec.get('kind', 'choices')
    if kind == 'choices':
        return S.ChoiceList(spec.get('choices', []))
    if kind == 'sparse':
        return S.Sparse({int(k): v for k, v in spec['points']})
    if kind == 'pct':
        return S.PCT(spec['prio'], spec['changes'])
    if kind == 'targeted':
        return S.Targeted(spec['prio'], {int(k): v for k, v in spec['points']},
                          ('put_job', '__eq__'))
    raise HarnessError('bad schedule spec %r' % (spec,))


class Result:
    pass


def _run_case(case, put_job_override=None):
    """Execute one case under the scheduler; returns a Result with marks,
    violations [(message, signature)] and statistics.  Pure function of
    (tree under test, case)."""
    table = outcome_table()
    outcomes = list(case.get('outcomes') or [])
    for o in outcomes:
        if o not in table:
            raise HarnessError('unknown outcome %r (not constructible in this '
                               'tree)' % o)
    _setup_logging(bool(case.get('log')))
    berte = build_bert_e()
    if put_job_override is not None:      # oracle self-test only
        berte.put_job = lambda job: put_job_override(berte, job)
    sc = S.Sched(traced_files())
    evals = []
    qops = []
    deliveries = []
    worker = {'died': None, 'post': []}

    def hook(op, item):
        qops.append((op, id(item), sc.step))
    berte.task_queue.hook = hook

    def process(job):
        i = len(evals)
        name = outcomes[i % len(outcomes)] if outcomes else 'ok'
        ev = {'job': job, 'start': sc.step, 'outcome': name, 'exc': None}
        evals.append(ev)
        if name == 'ok':
            return 0
        ev['exc'] = table[name]()
        raise ev['exc']
    berte.process = process

    keyof = {}
    per_thread = []
    for ti, keys in enumerate(case['threads']):
        ds = []
        for key in keys:
            job = make_job(berte, key)
            keyof[id(job)] = key
            d = {'thread': ti, 'key': key, 'job': job, 'entry': None,
                 'exit': None, 'res': None, 'err': None}
            ds.append(d)
            deliveries.append(d)
        per_thread.append(ds)

    def hook_body(ds):
        def body(sched, tid):
            for d in ds:
                d['entry'] = sched.step
                try:
                    berte.put_job(d['job'])
                    d['res'] = 'returned'
                except Exception as e:
                    d['res'] = 'raised'
                    d['err'] = '%s: %s' % (type(e).__name__, e)
                d['exit'] = sched.step
        return body

    def post_check(n_before):
        post = {'evaluated': len(evals) > n_before}
        if post['evaluated']:
            ev = evals[n_before]
            job = ev['job']
            post['eval'] = n_before
            post['in_done'] = any(j is job for j in berte.tasks_done)
            post['finished'] = getattr(job, 'end_time', None) is not None
            post['status'] = job.status
            post['details_type'] = type(job.details).__name__
        post['current_left'] = 'current job' in berte.status
        worker['post'].append(post)

    def worker_body(sched, tid):
        guard = (lambda: len(berte.task_queue.queue) > 0)
        while True:
            if sched.park(tid, ('guard',), guard) == S.STOP:
                return
            n_before = len(evals)
            try:
                berte.process_task()
            except Exception as e:
                tb = traceback.extract_tb(e.__traceback__)
                own = [f for f in tb if f.filename in traced_files()]
                worker['died'] = {
                    'exc': e, 'type': type(e).__name__,
                    'where': ['%s:%s' % (os.path.basename(f.filename), f.name)
                              for f in tb][-3:],
                    # innermost line of the code under test
                    'line': (own[-1].line if own else ''),
                    'step': sched.step, 'eval': n_before}
                post_check(n_before)
                return
            post_check(n_before)

    hook_tids = [sc.spawn('hook%d' % i, hook_body(ds))
                 for i, ds in enumerate(per_thread)]
    wtid = sc.spawn('worker', worker_body)

    def on_idle(sched, parked):
        # only the worker can be blocked, and only at its loop guard
        return parked == [wtid] and sched.tag[wtid] == ('guard',)

    sc.run(chooser_of(case.get('sched') or {}), on_idle)
    if sc.errors:
        raise HarnessError('harness failure inside a scheduled thread:\n' +
                           sc.errors[0])

    r = Result()
    r.sched = sc
    r.evals = evals
    r.deliveries = deliveries
    r.worker = worker
    r.choices = _trim(sc.choices)
    r.steps = len(sc.trace)
    r.preemptions = sc.preemptions
    r.decisions = sc.decisions
    r.violations = []
    r.classes = []
    _judge(case, r, keyof, hook_tids, wtid, qops)
    return r


def _trim(choices):
    c = list(choices)
    while c and c[-1] == 0:
        c.pop()
    return c


def _judge(case, r, keyof, hook_tids, wtid, qops):
    sc, evals, worker = r.sched, r.evals, r.worker
    cls = r.classes
    used = [e['outcome'] for e in evals]
    r.outcomes_used = used
    for d in r.deliveries:
        if d['res'] is None:
            raise HarnessError('delivery never finished: %r' % d)

    # ---- worker survival and per-job bookkeeping -------------------------
    died = worker['died']
    if died:
        ev = evals[died['eval']] if died['eval'] < len(evals) else None
        oexc = ev['exc'] if ev else None
        if oexc is not None and died['exc'] is oexc:
            cause = 'job_exception_not_caught'
        elif oexc is not None and str_fails(oexc) and \
                'str(' in (died['line'] or ''):
            cause = 'str_of_exception_failed'
        else:
            cause = 'other'
        r.violations.append((
            'worker thread died: process_task raised %s (%s) at %s [%s] '
            'while handling outcome %s of job %s; the server loop '
            '`while True: bert_e.process_task()` does not survive this' % (
                died['type'], _safe(died['exc']), '/'.join(died['where']),
                (died['line'] or '').strip(),
                ev['outcome'] if ev else '?',
                keyof.get(id(ev['job'])) if ev else '?'),
            {'clause': 'worker_died', 'cause': cause}))
        cls.append('worker_died')
    for post in worker['post']:
        if not post['evaluated']:
            cls.append('process_task_without_evaluation')
            continue
        ev = evals[post['eval']]
        what = 'job %s (evaluation #%d, outcome %s)' % (
            keyof.get(id(ev['job'])), post['eval'], ev['outcome'])
        if not post['in_done'] or not post['finished']:
            r.violations.append((
                '%s is not recorded as finished after process_task: '
                'in tasks_done=%s, end_time set=%s' % (
                    what, post['in_done'], post['finished']),
                {'clause': 'job_not_recorded'}))
        if ev['exc'] is not None:
            if not (isinstance(post['status'], str) and post['status']):
                r.violations.append((
                    '%s raised %s but its status is %r' % (
                        what, type(ev['exc']).__name__, post['status']),
                    {'clause': 'status_missing'}))
            elif post['status'] == type(ev['exc']).__name__:
                cls.append('status_is_class_name')
            else:
                cls.append('status_other_than_class_name')
        if post['current_left']:
            r.violations.append((
                "%s: 'current job' is still in bert_e.status after "
                'process_task' % what, {'clause': 'current_job_left'}))

    # ---- no accepted event is lost --------------------------------------
    accepted = [d for d in r.deliveries if d['res'] == 'returned']
    for d in r.deliveries:
        if d['res'] == 'raised':
            cls.append('put_job_raised')
            cls.append('put_job_raised:' + d['err'].split(':')[0])
    if died:
        cls.append('lost_event_check_skipped_worker_died')
    else:
        for d in accepted:
            later = [e for e in evals
                     if keyof.get(id(e['job'])) == d['key'] and
                     e['start'] > d['entry']]
            if not later:
                starts = [e['start'] for e in evals
                          if keyof.get(id(e['job'])) == d['key']]
                r.violations.append((
                    'lost event: put_job(%s) by webhook thread %d entered at '
                    'step %d and returned normally at step %d, but no '
                    'evaluation of an equal job starts after step %d '
                    '(evaluations of that key started at steps %r; %d '
                    'evaluations in all; job was %s)' % (
                        d['key'], d['thread'], d['entry'], d['exit'],
                        d['entry'], starts, len(evals),
                        'enqueued' if any(op == 'put' and j == id(d['job'])
                                          for op, j, s in qops)
                        else 'suppressed as duplicate'),
                    {'clause': 'lost_event'}))
                break
        if len(evals) != sum(1 for op, j, s in qops if op == 'put'):
            cls.append('enqueued_but_not_evaluated')

    # ---- statistics / non-triviality ------------------------------------
    trace = sc.trace
    steps_of = collections.defaultdict(list)
    for i, (t, tag) in enumerate(trace):
        steps_of[t].append(i + 1)        # step numbers are 1-based
    get_steps = [s for op, j, s in qops if op == 'get']
    nt_window = nt_get = False
    for d in r.deliveries:
        tid = hook_tids[d['thread']]
        own = [s for s in steps_of[tid] if d['entry'] < s <= d['exit']]
        if not own:
            continue
        first = own[0]                   # executes the first line of put_job
        put = [s for op, j, s in qops if op == 'put' and j == id(d['job'])]
        end = put[0] if put else d['exit']
        foreign = [i + 1 for i, (t, tag) in enumerate(trace)
                   if t != tid and first < i + 1 < end and tag != ('start',)
                   and tag != ('guard',)]
        if foreign:
            nt_window = True
        if any(first < s < end for s in get_steps):
            nt_get = True
    r.nontrivial = nt_window
    if nt_window:
        cls.append('nt_put_job_interrupted_in_test_to_put_window')
    if nt_get:
        cls.append('nt_worker_get_inside_put_job_window')
    n_dup = sum(1 for d in accepted
                if not any(op == 'put' and j == id(d['job'])
                           for op, j, s in qops))
    if n_dup:
        cls.append('has_duplicate_suppressed')
    cls.append('preemptions_%s' % (r.preemptions if r.preemptions < 3
                                   else '3+'))
    for k in sorted(set(outcome_kind(o) for o in used)):
        cls.append('outcome_' + k)
    if any(e['exc'] is not None and str_fails(e['exc']) for e in evals):
        cls.append('outcome_with_failing_str')
    cls.append('log_%s' % ('on' if case.get('log') else 'off'))
    r.key = jhash([case['threads'], used, bool(case.get('log')),
                   [(t, list(tag)) for t, tag in trace]])


def _safe(exc):
    try:
        return str(exc)
    except Exception:
        return '<unprintable %s>' % type(exc).__name__


def normal_case(case, r):
    """The case in replay normal form (explicit choice list)."""
    return {'threads': case['threads'], 'outcomes': case.get('outcomes', []),
            'log': bool(case.get('log')),
            'sched': {'kind': 'choices', 'choices': r.choices}}


def sample_of(case, r):
    return {'threads': case['threads'], 'outcomes_used': r.outcomes_used,
            'log': bool(case.get('log')), 'choices': r.choices,
            'steps': r.steps, 'preemptions': r.preemptions,
            'deliveries': [[d['key'], d['entry'], d['exit'], d['res']]
                           for d in r.deliveries],
            'evaluation_starts': [e['start'] for e in r.evals]}


# --------------------------------------------------------------------------
# shrinking (own, bounded; Hypothesis shrinking is off because violations are
# collected, not raised)
# --------------------------------------------------------------------------

def _sig_key(sig):
    return json.dumps(sig, sort_keys=True)


def shrink(case, sig, budget=80):
    """Greedy reduction of a normal-form case keeping a violation with the
    same signature.  Returns (case, message)."""
    want = _sig_key(sig)

    def fails(c):
        try:
            rr = run_case(c)
        except HarnessError:
            return None
        for m, s in rr.violations:
            if _sig_key(s) == want:
                return (normal_case(c, rr), m)
        return None

    best = fails(case)
    if best is None:
        return case, None
    spent = 1
    progress = True
    while progress and spent < budget:
        progress = False
        cur = best[0]
        cands = []
        if cur['sched']['choices']:
            cands.append(dict(cur, sched={'kind': 'choices', 'choices': []}))
        if cur['log']:
            cands.append(dict(cur, log=False))
        th = cur['threads']
        for i in range(len(th)):
            if len(th) > 1:
                cands.append(dict(cur, threads=th[:i] + th[i + 1:]))
            for j in range(len(th[i])):
                if len(th[i]) > 1:
                    cands.append(dict(cur, threads=th[:i] + [
                        th[i][:j] + th[i][j + 1:]] + th[i + 1:]))
        oc = cur['outcomes']
        for i in range(len(oc)):
            cands.append(dict(cur, outcomes=oc[:i] + oc[i + 1:]))
            if oc[i] != 'ok':
                cands.append(dict(cur, outcomes=oc[:i] + ['ok'] + oc[i + 1:]))
            if not oc[i].startswith(('ok', 'cls:')) and len(oc) == 1:
                # prefer a class of the repository itself with the same
                # (mis)behaviour of str()
                bad = str_fails(outcome_table()[oc[i]]())
                for n, fac in outcome_table().items():
                    if n.startswith('cls:') and str_fails(fac()) == bad and \
                            (bad or len(cands) < 40):
                        cands.append(dict(cur, outcomes=[n]))
        ch = cur['sched']['choices']
        for i in range(len(ch)):
            if ch[i]:
                cands.append(dict(cur, sched={
                    'kind': 'choices', 'choices': ch[:i] + [0] + ch[i + 1:]}))
                cands.append(dict(cur, sched={
                    'kind': 'choices', 'choices': ch[:i] + ch[i + 1:]}))
        size = _size(cur)
        for c in cands:
            if spent >= budget:
                break
            spent += 1
            got = fails(c)
            if got is not None and _size(got[0]) < size:
                best = got
                progress = True
                break
    return best


class Collector:
    """Keeps the smallest failing case per signature for one shard."""
    def __init__(self):
        self.best = {}
        self.count = collections.Counter()

    def add(self, case, r):
        for msg, sig in r.violations:
            k = _sig_key(sig)
            self.count[k] += 1
            nc = normal_case(case, r)
            size = _size(nc)
            if k not in self.best or size < self.best[k][0]:
                self.best[k] = (size, nc, msg, sig)

    def flush(self, acc, do_shrink=True):
        for k in sorted(self.best):
            size, nc, msg, sig = self.best[k]
            if do_shrink:
                nc2, msg2 = shrink(nc, sig)
                if msg2 is not None:
                    nc, msg = nc2, msg2
            acc.violation(msg, nc, sig)
            acc.cls('violating_cases:' + sig.get('clause', '?') +
                    ('/' + sig['cause'] if 'cause' in sig else ''),
                    self.count[k])


def account(acc, case, r, col):
    acc.case(r.key, r.nontrivial, sample=sample_of(case, r),
             classes=r.classes)
    acc.extra['steps_total'] = acc.extra.get('steps_total', 0) + r.steps
    if r.violations:
        col.add(case, r)


# --------------------------------------------------------------------------
# quick tier: Hypothesis-generated configurations, outcomes and schedules
# --------------------------------------------------------------------------

def strategies():
    from hypothesis import strategies as st
    names = list(outcome_table())
    by_kind = collections.defaultdict(list)
    for n in names:
        by_kind[outcome_kind(n)].append(n)
    syn_bad = [n for n in names if n.startswith('syn:') and
               not n.endswith(':plain')]
    repo_other = [n for n in by_kind['arbitrary'] if n.startswith('cls:')]
    pools = [by_kind['ok'] * 1, by_kind['silent'], by_kind['template'],
             by_kind['internal'], by_kind['arbitrary'], repo_other, syn_bad]
    pools = [p for p in pools if p]
    outcome = st.one_of([st.sampled_from(p) for p in pools])
    benign = [n for n in names if n == 'ok' or not str_fails(
        outcome_table()[n]())]
    outcome_benign = st.one_of(
        [st.sampled_from([x for x in p if x in benign]) for p in pools
         if any(x in benign for x in p)])

    @st.composite
    def case(draw):
        uni = draw(st.sampled_from(KEY_UNIVERSES))
        nth = draw(st.sampled_from([1, 2, 3, 3, 3]))
        threads = [draw(st.lists(st.sampled_from(uni), min_size=1, max_size=2))
                   for _ in range(nth)]
        if draw(st.booleans()):
            # full configuration more often
            threads = [t if len(t) == 2 else t + [draw(st.sampled_from(uni))]
                       for t in threads]
        # str-failing outcomes end the run on a tree with F4: keep them in
        # a minority of cases so that schedule depth is not starved
        if draw(st.integers(0, 3)) == 0:
            outs = draw(st.lists(outcome, min_size=0, max_size=6))
        else:
            outs = draw(st.lists(outcome_benign, min_size=0, max_size=6))
        kind = draw(st.sampled_from(['pct', 'sparse', 'dense', 'targeted',
                                     'targeted']))
        if kind == 'targeted':
            prio = draw(st.permutations(list(range(nth + 1))))
            pts = draw(st.lists(st.tuples(st.integers(0, 14),
                                          st.integers(1, 3)),
                                min_size=1, max_size=3,
                                unique_by=lambda p: p[0]))
            spec = {'kind': 'targeted', 'prio': list(prio),
                    'points': [list(p) for p in pts]}
        elif kind == 'pct':
            prio = draw(st.permutations(list(range(nth + 1))))
            changes = draw(st.lists(st.integers(0, 120), min_size=0,
                                    max_size=3))
            spec = {'kind': 'pct', 'prio': list(prio), 'changes': changes}
        elif kind == 'sparse':
            pts = draw(st.lists(st.tuples(st.integers(0, 110),
                                          st.integers(1, 3)),
                                min_size=0, max_size=4,
                                unique_by=lambda p: p[0]))
            spec = {'kind': 'sparse', 'points': [list(p) for p in pts]}
        else:
            spec = {'kind': 'choices',
                    'choices': draw(st.lists(st.integers(0, 3), min_size=0,
                                             max_size=150))}
        return {'threads': threads, 'outcomes': outs,
                'log': draw(st.booleans()), 'sched': spec}
    return case()


def shard_hyp(ctx, shard, acc):
    from hypothesis import HealthCheck, Phase, given, seed, settings
    idx, n_examples = shard
    col = Collector()
    selftest()

    @seed(ctx['seed'] * 1000 + idx)
    @settings(database=None, deadline=None, derandomize=False,
              report_multiple_bugs=False,
              suppress_health_check=list(HealthCheck),
              phases=(Phase.generate,), max_examples=n_examples)
    @given(strategies())
    def prop(case):
        r = run_case(case)
        account(acc, case, r, col)
        acc.cls('sched_' + case['sched']['kind'])
    prop()
    col.flush(acc)
    acc.extra['log_format_failures'] = _FmtHandler.failures
    acc.extra['hypothesis_cases'] = acc.evaluations


def shard_outcomes(ctx, shard, acc):
    """E2 part: every outcome of the domain once, sequentially, followed by a
    second job that must still be served."""
    col = Collector()
    killers = []
    for name in outcome_table():
        case = {'threads': [['pr:1'], ['sha:a']], 'outcomes': [name, 'ok'],
                'log': True, 'sched': {'kind': 'choices', 'choices': []}}
        r = run_case(case)
        account(acc, case, r, col)
        acc.cls('outcome_sweep')
        if r.worker['died']:
            killers.append(name)
        elif len(r.evals) != 2:
            raise HarnessError('outcome sweep: expected 2 evaluations')
    col.flush(acc)
    acc.extra['worker_killing_outcomes'] = killers
    acc.extra['outcome_domain_swept'] = True


# --------------------------------------------------------------------------
# thorough tier: every schedule with <= B preemptions of fixed configurations
# --------------------------------------------------------------------------

def exhaustive_configs():
    benign = ['ok', 'cls:bert_e.exceptions:NothingToDo',
              'cls:bert_e.exceptions:QueuesNotValidated',
              'lib:builtins.KeyError', 'cls:bert_e.exceptions:JobFailure',
              'cls:bert_e.exceptions:HelpMessage']
    table = outcome_table()
    benign = [b for b in benign if b in table]
    a, b = 'pr:1', 'pr:2'
    s = 'sha:a'
    return [
        {'name': 'same_key_3x2', 'bound': 2, 'log': False,
         'threads': [[a, a], [a, a], [a, a]], 'outcomes': benign},
        {'name': 'two_pr_keys_3x2', 'bound': 2, 'log': False,
         'threads': [[a, b], [b, a], [a, b]], 'outcomes': benign},
        {'name': 'pr_and_sha_3x2', 'bound': 2, 'log': False,
         'threads': [[a, s], [s, a], [a, a]], 'outcomes': benign},
        {'name': 'two_pr_keys_3x2_logging_on', 'bound': 1, 'log': True,
         'threads': [[a, b], [b, a], [a, b]], 'outcomes': benign},
    ]


def _children(prefix, r, bound):
    """Prefixes that differ from this run first at a decision point beyond
    the prefix, within the preemption bound."""
    out = []
    full = list(r.sched.choices)
    pre = 0
    for i, (step, n_alt, cont) in enumerate(r.decisions):
        if i >= len(prefix):
            cost = pre + (1 if cont else 0)
            if cost <= bound:
                for alt in range(1, n_alt + 1):
                    out.append(full[:i] + [alt])
        if full[i] != 0 and cont:
            pre += 1
    return out


def _run_prefix(cfg, prefix):
    case = {'threads': cfg['threads'], 'outcomes': cfg['outcomes'],
            'log': cfg['log'],
            'sched': {'kind': 'choices', 'choices': prefix}}
    return case, run_case(case)


def shard_exh(ctx, shard, acc):
    idx, n, cfg_i = shard
    cfg = exhaustive_configs()[cfg_i]
    col = Collector()
    bound = cfg['bound']
    # levels 0 and 1 are expanded identically in every shard; only the owner
    # (by index) accounts for them.  Level-2 nodes are dealt round-robin and
    # their whole subtrees belong to the shard.
    counter = 0
    level2 = []
    case, r = _run_prefix(cfg, [])
    if idx == 0:
        account(acc, case, r, col)
    for p1 in _children([], r, bound):
        case1, r1 = _run_prefix(cfg, p1)
        counter += 1
        if counter % n == idx:
            account(acc, case1, r1, col)
        level2.extend(_children(p1, r1, bound))
    stack = [p for k, p in enumerate(level2) if k % n == idx]
    stack.reverse()
    while stack:
        p = stack.pop()
        casep, rp = _run_prefix(cfg, p)
        if rp.preemptions > bound:
            raise HarnessError('enumeration produced %d preemptions' %
                               rp.preemptions)
        account(acc, casep, rp, col)
        acc.cls('exh_' + cfg['name'])
        stack.extend(reversed(_children(p, rp, bound)))
    col.flush(acc)
    acc.extra['exh_%s_schedules' % cfg['name']] = acc.evaluations


# --------------------------------------------------------------------------
# self-test of harness and oracle (failure = harness error, exit 2)
# --------------------------------------------------------------------------

def selftest():
    if _STATE.get('selftested'):
        return
    case = {'threads': [['pr:1', 'pr:1'], ['pr:1', 'pr:2']],
            'outcomes': ['ok', 'cls:bert_e.exceptions:QueuesNotValidated'],
            'log': True,
            'sched': {'kind': 'choices', 'choices': [1, 0, 2, 0, 0, 1, 1]}}
    r1 = run_case(case)
    r2 = run_case(normal_case(case, r1))
    t1 = [(t, tag) for t, tag in r1.sched.trace]
    t2 = [(t, tag) for t, tag in r2.sched.trace]
    if t1 != t2 or r1.key != r2.key:
        raise HarnessError('self-test: replay of a schedule is not '
                           'deterministic')
    funcs = set(tag[1] for t, tag in t1 if len(tag) == 3)
    need = {'put_job', 'process_task', '__eq__'}
    if not need <= funcs:
        raise HarnessError('self-test: scheduler saw no line of %r (saw %r)'
                           % (sorted(need - funcs), sorted(funcs)))
    if len(r1.evals) < 2 or any(d['res'] != 'returned'
                                for d in r1.deliveries):
        raise HarnessError('self-test: sequential semantics broken')

    # the lost-event oracle must fire on a dispatcher that drops an event
    # because an equal job is already done
    def dropping_put_job(berte, job):
        if job in berte.task_queue.queue or job in berte.tasks_done:
            return
        berte.task_queue.put(job)
    seq = {'threads': [['pr:1']], 'outcomes': [], 'log': False,
           'sched': {'kind': 'pct', 'prio': [5, 1], 'changes': []}}
    # thread 0 delivers pr:1, the worker evaluates it ...
    ok = run_case(dict(seq, threads=[['pr:1', 'pr:1']]))
    if ok.violations:
        raise HarnessError('self-test: false alarm on a sequential run: %r'
                           % ok.violations)
    bad = run_case({'threads': [['pr:1'], ['pr:1']], 'outcomes': [],
                    'log': False,
                    'sched': {'kind': 'pct', 'prio': [9, 1, 5],
                              'changes': []}},
                   put_job_override=dropping_put_job)
    if not any(s.get('clause') == 'lost_event' for m, s in bad.violations):
        raise HarnessError('self-test: lost-event oracle did not fire on a '
                           'dispatcher that drops re-deliveries of done jobs')
    _STATE['selftested'] = True


# --------------------------------------------------------------------------
# entry points
# --------------------------------------------------------------------------

def run(ctx):
    outcome_table()
    selftest()
    n = ctx['nproc']
    per = 400 if ctx['tier'] == 'quick' else 2500
    acc = run_shards(__name__, 'shard_hyp', ctx,
                     [(i, per) for i in range(16)])
    acc.merge_dump(run_shards(__name__, 'shard_outcomes', ctx, [0]).dump())
    # part W: the Flask handlers in front of put_job (c13_hooks.py)
    per_w = 120 if ctx['tier'] == 'quick' else 1500
    acc.merge_dump(run_shards('vf.checks.c13_hooks', 'shard_fn', ctx,
                              [(i, 16, per_w) for i in range(16)]).dump())
    acc.extra['outcome_domain_size'] = len(outcome_table())
    acc.extra['outcomes_unconstructible'] = list(_STATE['unconstructible'])
    acc.extra['exhaustive'] = False
    if ctx['tier'] == 'thorough':
        complete = []
        for ci, cfg in enumerate(exhaustive_configs()):
            a2 = run_shards(__name__, 'shard_exh', ctx,
                            [(i, n, ci) for i in range(n)])
            acc.merge_dump(a2.dump())
            complete.append('%s: all %d schedules with <= %d preemptions '
                            '(logging %s)' % (
                                cfg['name'], a2.evaluations, cfg['bound'],
                                'on' if cfg['log'] else 'off'))
        acc.extra['exhaustive_parts_complete'] = complete
        acc.notes.append(
            'exhaustive only for: ' + '; '.join(complete) +
            ' - the Hypothesis part (configurations, outcomes, deeper '
            'schedules) is sampled')
    if acc.evaluations:
        acc.extra['mean_steps_per_schedule'] = round(
            acc.extra.get('steps_total', 0) / acc.evaluations, 1)
        acc.extra['fraction_nontrivial_cases'] = round(
            sum(v for k, v in acc.classes.items()
                if k == 'nt_put_job_interrupted_in_test_to_put_window')
            / acc.evaluations, 3)
    return acc


def replay(ctx, case, acc):
    if case.get('part') == 'hooks':
        from vf.checks import c13_hooks
        return c13_hooks.replay(ctx, case, acc)
    outcome_table()
    r = run_case(case)
    for msg, sig in r.violations:
        acc.violation(msg, normal_case(case, r), sig)
