"""C07 only the right people switch options on through comments.

Comment lists (length <= 3) are generated constructively with Hypothesis, so
the ground truth (who addressed what to the robot, in which form) is known
without re-parsing the text; the real handle_comments runs on a real
PullRequestJob.  Oracle clauses (DESIGN.md section 4 / C07):

SAFETY   a privileged option (bypass_*) truthy in job.settings => some comment
         by an admin != PR author is addressed to the robot and names it;
         approve truthy => such a comment by the author.  Evaluated whatever
         the outcome (also at the time an exception is raised).
BLOCKING a comment in a documented form with an unknown keyword / a privileged
         keyword from a non-privileged poster / approve from a non-author =>
         the call raises UnknownCommand / NotEnoughCredentials / NotAuthor
         naming an offence actually present (keyword and poster).
INERT    no addressed comment => no exception, every option at its default;
         an option named only in unaddressed text is never changed.
Forms outside the documented grammar are EITHER for BLOCKING, never for SAFETY.
"""
import json
import logging
import os
import re
import shutil
import subprocess
import sys
import tempfile
import traceback
from copy import copy

from vf import stubs
from vf.cli import run_shards, Acc, HarnessError

LEVEL = 'exploration'
RULE = ('Hypothesis, constructive grammar: 0-3 comments x poster in {author, '
        'admin, admin-who-is-author (2nd configuration), other, robot} x form '
        'in {@robot, @robot:, / per keyword, unaddressed text, 5 undocumented '
        'variants} x 1-4 keyword[=arg] over every registered option and '
        'command + unknown words x separators from " ,.-:;|+" x leading/'
        'trailing whitespace and punctuation, through the real '
        'handle_comments on a real PullRequestJob. non-trivial = list with a '
        'privileged or author-only keyword from a wrong poster in an addressed'
        ' comment, or a comment mixing valid and offending keywords; distinct '
        'by (configuration, robot name, [(poster, text)]). Raw parts: token '
        'soup (Hypothesis) and, thorough tier, atheris on raw bytes, SAFETY '
        'and INERT-by-name oracles only.')
ASSUMPTIONS = [
    'git host replaced by in-memory fakes; template rendering stubbed; git '
    'replaced by a stub whose every method raises a private marker (reset / '
    'force_reset reach it through clone_git_repo)',
    'privileged = registered options named bypass_* and author-only = approve,'
    ' as in the statement; no_octopus (admin-only in USER_DOC.md, open to all '
    'in the code) is an EITHER cell',
    'per-author settings and command-line defaults are empty in this check '
    '(they are exercised by C06)',
    'unaddressed = stripped text starts neither with @<robot> nor with "/"; a '
    'mention of the robot in the middle of a text is not an address',
]

ADMIN, ADMIN2, AUTHOR, OTHER = 'admin', 'admin2', 'author', 'other'
ROBOTS = ('robot', 'bert-e')
SEPCHARS = ' ,.-:;|+'
WS = ['', '', ' ', '  ', '\n', '\t', ' \n', '\r\n ']
TRAILS = ['', '', '', ' ', '\n', ' \n', '.', ',', ' .', ';', ' -', ':', '|',
          '+', '. ', ',\n']
JUNK = ['!', '?', "'", '"', '(', ')', '*', '`', '#', '@', '/']
ARGS = [None, None, None, None, None, None, '1', '12', 'abc', '', '1=2',
        '1=2', '0', 'true']
UNKNOWN = ['foo', 'please', 'bypass', 'bypass_all', 'approved', 'Approve',
           'WAIT', 'wait_', 'thanks', '42', 'héllo', 'bypass_build',
           '_', 'Bypass_build_status', 'approve_', 'unknown']
PLAINWORDS = ['hello', 'please', 'LGTM', '>', 'cc', '@alice', 'I', 'think',
              'we', 'should', 'http://ci/x', 'see', 'the', 'doc', 'robot']
BLOCK_TYPES = ('UnknownCommand', 'NotEnoughCredentials', 'NotAuthor')
CMD_OUTCOMES = {
    'help': ('HelpMessage',),
    'status': ('StatusReport',),
    'build': ('CommandNotImplemented', 'TypeError'),
    'retry': ('CommandNotImplemented', 'TypeError'),
    'clear': ('CommandNotImplemented', 'TypeError'),
    'reset': ('GitMarker', 'ResetComplete', 'LossyResetWarning'),
    'force_reset': ('GitMarker', 'ResetComplete', 'LossyResetWarning'),
}
ANY_CMD_OUTCOME = ('HelpMessage', 'StatusReport', 'CommandNotImplemented',
                   'TypeError', 'GitMarker', 'ResetComplete',
                   'LossyResetWarning')


class GitMarker(Exception):
    """Raised by the git stub: a command reached git."""


class GitStub:
    def __getattr__(self, name):
        def method(*a, **k):
            raise GitMarker(name)
        return method


# ---------------------------------------------------------------------------
# registry (from the tree under test) and its classification (from the
# statement and USER_DOC.md)

_REG = None


def registry():
    global _REG
    if _REG is None:
        from bert_e.reactor import Reactor
        from bert_e.workflow import gitwaterflow as gwf
        gwf.setup({})
        opts = Reactor.get_options()
        cmds = Reactor.get_commands()
        names = sorted(opts)
        reg = {
            'options': names,
            'commands': sorted(cmds),
            'priv': [k for k in names if k.startswith('bypass_')],
            'authored': [k for k in names if k == 'approve'],
            'docpriv': [k for k in names if k == 'no_octopus'],
            'defaults': {k: copy(opts[k].default) for k in names},
        }
        reg['plain'] = [k for k in names if k not in reg['priv'] and
                        k not in reg['authored']]
        reg['all'] = set(names) | set(cmds)
        reg['unknown'] = [w for w in UNKNOWN if w not in reg['all']]
        selftest(reg)
        _REG = reg
    return _REG


def selftest(reg):
    """Ground truth that already exists: the option table of USER_DOC.md."""
    if not reg['priv'] or reg['authored'] != ['approve'] or \
            not reg['commands']:
        raise HarnessError('C07: registry has no bypass_*/approve/commands')
    import bert_e
    doc = os.path.join(os.path.dirname(bert_e.__file__), 'docs',
                       'USER_DOC.md')
    rows = {}
    with open(doc, encoding='utf-8') as f:
        for line in f:
            m = re.match(r'\|\s*(\w+)\s*\|.*\|\s*(yes|no)\s*\|\s*(yes|no)\s*$',
                         line)
            if m:
                rows[m.group(1)] = (m.group(2), m.group(3))
    if not rows:
        raise HarnessError('C07: option table of USER_DOC.md not found')
    for name, (adm, auth) in sorted(rows.items()):
        mine_adm = name in reg['priv'] or name in reg['docpriv']
        mine_auth = name in reg['authored']
        if (adm == 'yes') != mine_adm or (auth == 'yes') != mine_auth:
            raise HarnessError('C07 oracle self-test: USER_DOC.md says %s '
                               'admin=%s author=%s' % (name, adm, auth))


# ---------------------------------------------------------------------------
# case model
#
# case = {'cfg': 'A'|'B', 'robot': str, 'comments': [comment...]}
# comment (addressed) = {'poster', 'lead', 'addr', 'sep0',
#                        'items': [[pre, word, arg|None, post]...],
#                        'seps': [str] * (len(items)-1), 'trail'}
# comment (unaddressed) = {'poster', 'lead', 'toks': [str...]}
# comment (raw)         = {'poster', 'text'}

def names_of(case):
    if case['cfg'] == 'A':
        d = {'author': AUTHOR, 'admin': ADMIN}
    else:
        d = {'adminauthor': ADMIN, 'admin': ADMIN2}
    d['other'] = OTHER
    d['robot'] = case['robot']
    return d


def pr_author(case):
    return AUTHOR if case['cfg'] == 'A' else ADMIN


def render(c):
    if 'text' in c:
        return c['text']
    if 'toks' in c:
        return c['lead'] + ' '.join(c['toks'])
    out = [c['lead'], c['addr'], c['sep0']]
    for i, (pre, word, arg, post) in enumerate(c['items']):
        out.append(pre + word + ('' if arg is None else '=' + arg) + post)
        if i < len(c['items']) - 1:
            out.append(c['seps'][i])
    out.append(c['trail'])
    return ''.join(out)


def is_ws(s):
    return s.strip() == ''


def form_of(c):
    """(label, documented) derived from the pieces, not from a stored tag."""
    if 'toks' in c:
        return 'none', False
    items = c['items']
    clean = all(p[3] == '' for p in items)
    seps_ok = all(s != '' and all(ch in SEPCHARS for ch in s)
                  for s in c['seps'])
    if c['addr']:
        if not c['addr'].endswith(':') and c['sep0'] == '':
            return 'u_at_glued', False
        if any(p[0] for p in items):
            return 'u_at_slash', False
        if not clean:
            return 'u_junk', False
        if not seps_ok:
            return 'u_nosep', False
        if not all(ch in SEPCHARS or ch.isspace() for ch in
                   c['sep0'] + c['trail']):
            return 'u_junk', False
        return ('at_colon' if c['addr'].endswith(':') else 'at'), True
    if not clean:
        return 'u_junk', False
    if not all(p[0] == '/' for p in items):
        return 'u_slash_tail', False
    if not seps_ok:
        return 'u_slash_nosep', False
    if not is_ws(c['trail']):
        return 'u_junk', False
    return 'slash', True


def analyse(case, reg):
    """Ground truth by construction."""
    pra = pr_author(case)
    names = names_of(case)
    rows = []
    last_robot = -1
    for i, c in enumerate(case['comments']):
        if c['poster'] == 'robot':
            last_robot = i
    for i, c in enumerate(case['comments']):
        name = names[c['poster']]
        form, documented = form_of(c)
        row = {'i': i, 'poster': c['poster'], 'name': name, 'form': form,
               'documented': documented, 'addressed': form != 'none',
               'privileged': name in (ADMIN, ADMIN2) and name != pra,
               'authored': name == pra, 'after_robot': i > last_robot,
               'words': [], 'command': None, 'must': [], 'may': [],
               'mixed': False}
        rows.append(row)
        if not row['addressed']:
            row['mentions'] = [k for k in reg['options']
                               if any(k in t for t in c['toks'])]
            continue
        items = c['items']
        row['words'] = [p[1] for p in items]
        if items[0][1] in reg['commands']:
            row['command'] = items[0][1]
            continue
        good = bad = 0
        for idx, (pre, word, arg, post) in enumerate(items):
            off = None
            if word not in reg['all']:
                off = ('UnknownCommand', word, True)
            elif word in reg['commands']:
                off = ('UnknownCommand', word, False)
            elif word in reg['priv'] and not row['privileged']:
                off = ('NotEnoughCredentials', word, True)
            elif word in reg['authored'] and not row['authored']:
                off = ('NotAuthor', word, True)
            elif word in reg['docpriv'] and not row['privileged']:
                off = ('NotEnoughCredentials', word, False)
            if word in reg['options'] and (
                    (word == 'after_pull_request' and arg is None) or
                    (arg is not None and '=' in arg)):
                # option[=argument] is the documented usage; what happens
                # with zero or two arguments is an open cell
                row['may'].append(('IncorrectCommandSyntax', None, name))
                if off is None:
                    bad += 1
                    continue
            if off is None:
                good += 1
                continue
            bad += 1
            (row['must'] if off[2] and documented else row['may']).append(
                (off[0], off[1], name))
        row['mixed'] = good > 0 and bad > 0
    return rows


# ---------------------------------------------------------------------------
# execution of the real code

def evaluate(case):
    import bert_e.exceptions as exc
    from bert_e.workflow import gitwaterflow as gwf
    reg = registry()
    # admins may be declared with an account id (`username@account_id`,
    # the documented Bitbucket form) while the host reports plain usernames
    if case.get('admin_form', 'plain') == 'account':
        admins = [ADMIN + '@557058:acc-admin', ADMIN2 + '@557058:acc-admin2']
    else:
        admins = [ADMIN, ADMIN2]
    settings = stubs.load_settings(robot=case['robot'], admins=admins)
    names = names_of(case)
    comments = [stubs.FakeComment(names[c['poster']], render(c), i + 1)
                for i, c in enumerate(case['comments'])]
    pr = stubs.FakePR(author=pr_author(case), comments=comments)
    job = stubs.make_job(settings, pr, git_repo=GitStub())
    out = {'type': 'ok', 'command': None, 'author': None, 'in_cmd': False}
    try:
        gwf.handle_comments(job)
    except exc.TemplateException as e:
        out['type'] = type(e).__name__
        out['command'] = e.kwargs.get('command')
        out['author'] = e.kwargs.get('author')
        if out['author'] is not None:
            out['author'] = str(out['author'])
    except GitMarker:
        out['type'] = 'GitMarker'
    except Exception as e:
        out['type'] = type(e).__name__
        out['in_cmd'] = any(
            fr.name == 'handle_commands'
            for fr in traceback.extract_tb(e.__traceback__))
        out['detail'] = repr(e)[:200]
    got = {k: job.settings.maps[0].get(k) for k in reg['options']}
    # "takes effect": the bypasses are read back through the helpers of
    # gitwaterflow.utils; an option that is in effect there although nobody
    # entitled wrote it is as bad as one set in job.settings
    import bert_e.workflow.gitwaterflow.utils as gutils
    for k in reg['options']:
        fn = getattr(gutils, k, None)
        if callable(fn) and not got.get(k):
            try:
                if fn(job):
                    got[k] = 'in effect through utils.%s()' % k
            except Exception:
                pass
    return out, got, [c.text for c in comments]


# ---------------------------------------------------------------------------
# oracle

def check(case, rows, out, got, reg):
    """Return (violations, either_cells); violation = (signature, message)."""
    bad, either = [], []
    addressed = [r for r in rows if r['addressed']]
    changed = [k for k in reg['options'] if got[k] != reg['defaults'][k]]

    # SAFETY, whatever the outcome (also at the time of raising)
    for k in reg['priv']:
        if got[k] and not any(r['privileged'] and k in r['words']
                              for r in addressed):
            who = sorted(set(r['poster'] for r in addressed
                             if k in r['words'])) or ['nobody']
            bad.append(({'clause': 'safety', 'what': 'privileged',
                         'named_by': '+'.join(who),
                         'raised': out['type'] != 'ok'},
                        'privileged option %s=%r in job.settings (outcome %s)'
                        ' but no admin != author named it in an addressed '
                        'comment' % (k, got[k], out['type'])))
    for k in reg['authored']:
        if got[k] and not any(r['authored'] and k in r['words']
                              for r in addressed):
            who = sorted(set(r['poster'] for r in addressed
                             if k in r['words'])) or ['nobody']
            bad.append(({'clause': 'safety', 'what': 'author_only',
                         'named_by': '+'.join(who),
                         'raised': out['type'] != 'ok'},
                        'author-only option %s=%r in job.settings (outcome '
                        '%s) but the author did not name it in an addressed '
                        'comment' % (k, got[k], out['type'])))

    # INERT
    if not addressed:
        if out['type'] != 'ok':
            bad.append(({'clause': 'inert', 'what': 'raised',
                         'got': out['type']},
                        'no comment is addressed to the robot but the call '
                        'raised %s(%r)' % (out['type'], out['command'])))
        if changed:
            bad.append(({'clause': 'inert', 'what': 'option_changed'},
                        'no comment is addressed to the robot but %s changed'
                        % changed))
    else:
        for k in changed:
            if not any(k in r['words'] for r in addressed) and \
                    any(k in r.get('mentions', ()) for r in rows):
                bad.append(({'clause': 'inert', 'what': 'unaddressed_name'},
                            'option %s changed, no addressed comment names '
                            'it, an unaddressed text does' % k))

    # BLOCKING / outcome
    must = [o for r in rows for o in r['must']]
    may = [o for r in rows for o in r['may']]
    t = out['type']
    if t in BLOCK_TYPES:
        key = (t, out['command'], out['author'])
        if key in must:
            pass
        elif key in may:
            either.append('either_block_on_open_cell')
        elif t == 'UnknownCommand' and not must and \
                out['command'] not in reg['all'] and addressed and \
                any(out['command'] in txt for txt in
                    [render(case['comments'][r['i']]) for r in addressed]):
            # tokenisation of the commands pass is not pinned by the
            # statement: a block naming a token that is no registered keyword
            either.append('either_block_on_tokenisation')
        else:
            bad.append(({'clause': 'blocking', 'what': 'no_such_offence',
                         'got': t},
                        '%s(command=%r, author=%r) raised but no such '
                        'offence is present (must=%s may=%s)' %
                        (t, out['command'], out['author'], must, may)))
    elif t == 'IncorrectCommandSyntax':
        if any(o[0] == t for o in may):
            either.append('either_syntax_block_masks_offence' if must
                          else 'either_syntax_block')
        else:
            bad.append(({'clause': 'blocking', 'what': 'no_such_offence',
                         'got': t},
                        'IncorrectCommandSyntax raised without a syntax '
                        'offence (must=%s may=%s)' % (must, may)))
    elif t == 'ok':
        if must:
            kinds = sorted(set(o[0] for o in must))
            bad.append(({'clause': 'blocking', 'what': 'not_blocked',
                         'offence': '+'.join(kinds)},
                        'offences %s in documented forms, but the call '
                        'returned normally' % must))
        elif may:
            either.append('either_open_cell_not_blocked')
    else:
        live = [r for r in addressed if r['command'] and r['after_robot']
                and r['poster'] != 'robot' and
                t in CMD_OUTCOMES.get(r['command'], ANY_CMD_OUTCOME)]
        if t in ANY_CMD_OUTCOME and live and \
                (t != 'TypeError' or out['in_cmd']):
            if must:
                bad.append(({'clause': 'blocking', 'what': 'not_blocked',
                             'offence': 'command_ran_instead'},
                            'offences %s in documented forms, but a command '
                            'ran instead (%s)' % (must, t)))
            elif t == 'TypeError':
                either.append('either_command_typeerror')
        else:
            bad.append(({'clause': 'outcome', 'what': 'unexpected',
                         'got': t},
                        'outcome %s %s is explained by no comment (commands '
                        'after the last robot comment: %s)' %
                        (t, out.get('detail', ''),
                         [r['command'] for r in addressed
                          if r['command'] and r['after_robot']])))
    return bad, either


def classes_of(case, rows, out, reg):
    cl = set()
    cl.add('cfg_' + case['cfg'])
    cl.add('admin_form_' + case.get('admin_form', 'plain'))
    cl.add('len_%d' % len(rows))
    for r in rows:
        cl.add('poster_' + r['poster'])
        cl.add('form_' + r['form'])
        if r['command']:
            cl.add('command_first')
            if r['after_robot'] and r['poster'] != 'robot':
                cl.add('command_live')
        for o in r['must']:
            cl.add('must_' + o[0])
        for o in r['may']:
            cl.add('may_' + o[0])
        if r['privileged'] and any(w in reg['priv'] for w in r['words']) \
                and not r['command']:
            cl.add('legit_privileged_kw')
        if r['authored'] and 'approve' in r['words'] and not r['command']:
            cl.add('legit_approve_kw')
    if any(r['poster'] == 'robot' for r in rows) and \
            rows and rows[-1]['poster'] != 'robot':
        cl.add('robot_then_others')
    t = out['type']
    cl.add('outcome_' + (t if t in BLOCK_TYPES or t in ANY_CMD_OUTCOME or
                         t in ('ok', 'IncorrectCommandSyntax') else 'other'))
    if t in ANY_CMD_OUTCOME:
        cl.add('outcome_command_executed')
    return cl


def nontrivial(rows, reg):
    for r in rows:
        if not r['addressed'] or r['command']:
            continue
        if r['mixed']:
            return True
        for o in r['must'] + r['may']:
            if o[0] in ('NotEnoughCredentials', 'NotAuthor'):
                return True
    return False


def key_of(case, texts):
    return [case['cfg'], case['robot'], case.get('admin_form', 'plain'),
            [[c['poster'], t] for c, t in zip(case['comments'], texts)]]


def sanity(case, rows):
    """Generator soundness: what is tagged unaddressed really is."""
    prefix = '@' + case['robot']
    for c, r in zip(case['comments'], rows):
        raw = render(c).strip()
        if not r['addressed'] and (raw.startswith(prefix) or
                                   raw.startswith('/')):
            raise HarnessError('C07 generator: unaddressed text %r' % raw)
        if r['addressed'] and not (raw.startswith(prefix) or
                                   raw.startswith('/')):
            raise HarnessError('C07 generator: addressed text %r' % raw)


def run_case(case, reg):
    rows = analyse(case, reg)
    sanity(case, rows)
    out, got, texts = evaluate(case)
    bad, either = check(case, rows, out, got, reg)
    return rows, out, got, texts, bad, either


# ---------------------------------------------------------------------------
# own shrinker (violations are collected, not raised, so that several root
# causes are enumerated; Hypothesis therefore does not shrink)

def _variants(case):
    cs = case['comments']
    for i in range(len(cs)):
        yield dict(case, comments=cs[:i] + cs[i + 1:])
    if case['robot'] != ROBOTS[0]:
        return      # literal pieces contain the name: keep it
    for i, c in enumerate(cs):
        def put(**kw):
            return dict(case, comments=cs[:i] + [dict(c, **kw)] + cs[i + 1:])
        if 'toks' in c:
            for j in range(1, len(c['toks'])):
                yield put(toks=c['toks'][:j] + c['toks'][j + 1:])
            if c['lead']:
                yield put(lead='')
            continue
        if 'items' not in c:
            continue
        items = c['items']
        for j in range(len(items)):
            if len(items) > 1:
                seps = list(c['seps'])
                del seps[min(j, len(seps) - 1)]
                yield put(items=items[:j] + items[j + 1:], seps=seps)
            pre, w, a, post = items[j]
            if a is not None:
                yield put(items=items[:j] + [[pre, w, None, post]] +
                          items[j + 1:])
            if post:
                yield put(items=items[:j] + [[pre, w, a, '']] +
                          items[j + 1:])
        if c['lead']:
            yield put(lead='')
        if c['trail']:
            yield put(trail='')
        if c['addr'] and c['sep0'] not in (' ', ''):
            yield put(sep0=' ')
        if any(s != ' ' for s in c['seps']):
            yield put(seps=[' '] * len(c['seps']))


def shrink(case, sig, reg, budget=300):
    cur = case
    progress = True
    while progress and budget > 0:
        progress = False
        for v in _variants(cur):
            budget -= 1
            if budget <= 0:
                break
            try:
                bad = run_case(v, reg)[4]
            except HarnessError:
                continue
            if any(s == sig for s, _ in bad):
                cur = v
                progress = True
                break
    return cur


# ---------------------------------------------------------------------------
# Hypothesis strategies

def strategies(reg):
    """Strategy objects are built once: re-creating sampled_from(...) inside
    a composite costs more than the code under test."""
    from hypothesis import strategies as st
    sf = st.sampled_from

    plain_ok = [k for k in reg['plain'] if k not in reg['docpriv']]
    cmd_pool = []
    for k in reg['commands']:
        cmd_pool += [k] * {'help': 3, 'status': 3, 'force_reset': 1}.get(k, 2)
    forms = (['at'] * 7 + ['at_colon'] * 4 + ['slash'] * 6 + ['none'] * 5 +
             ['u_at_glued', 'u_at_slash', 'u_junk', 'u_slash_tail',
              'u_slash_nosep'] * 2)

    s_cat = sf(['priv'] * 6 + ['authored'] * 3 + ['plain'] * 5 +
               ['commands'] * 2 + ['unknown'] * 3)
    s_word = {c: sf(reg[c]) for c in ('priv', 'authored', 'plain',
                                      'commands', 'unknown')}
    s_arg = sf(ARGS)
    s_bool = st.booleans()
    s_sep = st.one_of(sf([' ', ' ', ', ', ' - ', ',', '  ']),
                      st.text(alphabet=SEPCHARS, min_size=1, max_size=3))
    s_sep0c = st.one_of(st.just(''), st.just(' '), s_sep)
    s_ws, s_trail, s_junk = sf(WS), sf(TRAILS), sf(JUNK)
    s_form, s_docform = sf(forms), sf(['at', 'at_colon', 'slash'])
    s_cmd = sf(cmd_pool)
    s_slash = sf(['/', ''])
    s_cleanarg = sf([None, None, None, None, None, '1', '7', '1=2'])
    s_d10, s_d5, s_n4, s_n2 = (st.integers(0, 9), st.integers(0, 4),
                               st.integers(1, 4), st.integers(1, 2))
    s_idx = {(lo, n): st.integers(lo, n - 1)
             for lo in (0, 1) for n in (1, 2, 3, 4) if n - 1 >= lo}
    s_posters = {
        cfg: sf((['author'] * 3 if cfg == 'A' else ['adminauthor'] * 3) +
                ['admin'] * 3 + ['other'] * 2 + ['robot'])
        for cfg in 'AB'}
    clean_pool = {}
    for poster in ('author', 'adminauthor', 'admin', 'other', 'robot'):
        pool = list(plain_ok)
        if poster == 'admin':
            pool = reg['priv'] * 2 + reg['docpriv'] + pool
        elif poster in ('author', 'adminauthor'):
            pool = reg['authored'] * 4 + pool
        clean_pool[poster] = sf(pool)
    s_first, s_rest = {}, {}
    for robot in ROBOTS:
        prefix = '@' + robot
        s_first[robot] = sf(
            PLAINWORDS + reg['options'][:] + ['help', 'reset'] +
            ['@', '@ ' + robot, prefix[:-1], '`' + prefix, '(' + prefix,
             '"' + prefix, '> ' + prefix, '-', ':', '.', '\\/approve',
             '`/approve`', '', ''])
        s_rest[robot] = st.lists(sf(
            PLAINWORDS + reg['options'] + reg['commands'] +
            [prefix, prefix + ':', '\n' + prefix, '\n'] +
            ['/' + k for k in reg['options']] +
            [k + '=1' for k in reg['priv'][:3]] + ['/help', '=']),
            max_size=5)

    def keyword(draw, first=False):
        cat = draw(s_cat)
        if first and cat == 'commands' and draw(s_bool):
            cat = 'plain'
        word = draw(s_word[cat])
        arg = draw(s_arg)
        if word == 'after_pull_request' and arg is None and draw(s_bool):
            arg = '7'
        return ['', word, arg, '']

    def clean_keyword(draw, poster):
        """A keyword this poster is entitled to, in the documented usage
        (except for an occasional wrong number of arguments)."""
        word = draw(clean_pool[poster])
        arg = draw(s_cleanarg)
        if word == 'after_pull_request' and arg is None and draw(s_d5):
            arg = '12'
        return ['', word, arg, '']

    def comment(draw, cfg, robot, mood):
        clean = mood == 'clean' or (mood == 'mixed' and draw(s_bool))
        poster = draw(s_posters[cfg])
        form = draw(s_form)
        if clean and form.startswith('u_') and draw(s_bool):
            form = draw(s_docform)
        lead = draw(s_ws)
        prefix = '@' + robot
        if form == 'none':
            first = draw(s_first[robot])
            rest = draw(s_rest[robot])
            if first == '' and rest:
                first = 'hello'
            return {'poster': poster, 'lead': lead, 'toks': [first] + rest}
        n = draw(s_n4)
        if form in ('u_slash_tail', 'u_slash_nosep'):
            n = max(n, 2)
        if clean and draw(s_d10) < 7:
            # a command call: command first, the rest are its arguments
            n = min(n, draw(s_n2))
            if form in ('u_slash_tail', 'u_slash_nosep'):
                n = 2
            items = [['', draw(s_cmd), None, '']]
            items += [keyword(draw) for _ in range(n - 1)]
        elif clean:
            items = [clean_keyword(draw, poster) for _ in range(n)]
        else:
            items = [keyword(draw, True)] + \
                [keyword(draw) for _ in range(n - 1)]
        seps = [draw(s_sep) for _ in range(n - 1)]
        trail = draw(s_trail)
        if clean and draw(s_d5):
            trail = draw(s_ws)
        addr, sep0 = '', ''
        if form in ('at', 'u_at_slash', 'u_junk'):
            addr, sep0 = prefix, draw(s_sep)
        elif form == 'at_colon':
            addr = prefix + ':'
            sep0 = draw(s_sep0c)
        elif form == 'u_at_glued':
            addr = prefix
        if form == 'u_at_slash':
            items[0][0] = '/'
            for it in items[1:]:
                it[0] = draw(s_slash)
        elif form == 'u_junk':
            items[draw(s_idx[0, n])][3] = draw(s_junk)
        elif form in ('slash', 'u_slash_tail', 'u_slash_nosep'):
            for it in items:
                it[0] = '/'
            if form == 'slash':
                trail = draw(s_ws)
            elif form == 'u_slash_tail':
                items[draw(s_idx[1, n])][0] = ''
            else:
                seps[draw(s_idx[0, n - 1])] = ''
        return {'poster': poster, 'lead': lead, 'addr': addr, 'sep0': sep0,
                'items': items, 'seps': seps, 'trail': trail}

    s_admin_form = sf(['plain', 'plain', 'account'])
    s_cfg = sf(['A', 'A', 'A', 'B', 'B'])
    s_robot = sf([ROBOTS[0]] * 3 + [ROBOTS[1]])
    s_mood = sf(['wild'] * 4 + ['mixed'] * 2 + ['clean'] * 4)
    s_len = sf([0, 1, 1, 1, 2, 2, 2, 2, 3, 3, 3, 3, 3, 3])

    @st.composite
    def case(draw):
        cfg, robot, mood = draw(s_cfg), draw(s_robot), draw(s_mood)
        comments = [comment(draw, cfg, robot, mood)
                    for _ in range(draw(s_len))]
        return {'cfg': cfg, 'robot': robot, 'comments': comments,
                'admin_form': draw(s_admin_form)}

    words = reg['priv'] * 2 + reg['options'] + reg['commands'] + ['foo', '1']
    r_word = sf(words)
    r_glue = sf([' ', ' ', ' ', ',', ':', '=', '.', '-', ';', '|', '+', '\n',
                 '/', ' /', '@robot', ''])
    r_head = sf(['@robot', '@robot', '@robot ', '@robot:', '/', '/',
                 ' @robot', '\n/', '', 'hello ', '@robot/',
                 '@robot@robot '])
    r_posters = {
        cfg: sf(['author' if cfg == 'A' else 'adminauthor'] * 2 +
                ['admin'] * 3 + ['other', 'robot']) for cfg in 'AB'}
    r_n, r_len, r_cfg = st.integers(0, 4), st.integers(1, 3), sf(['A', 'B'])

    @st.composite
    def raw_case(draw):
        cfg = draw(r_cfg)
        comments = []
        for _ in range(draw(r_len)):
            out = [draw(r_head)]
            for _ in range(draw(r_n)):
                out.append(draw(r_word))
                out.append(draw(r_glue))
            comments.append({'poster': draw(r_posters[cfg]),
                             'text': ''.join(out)})
        return {'cfg': cfg, 'robot': ROBOTS[0], 'comments': comments,
                'admin_form': draw(s_admin_form)}

    return case(), raw_case()


# ---------------------------------------------------------------------------
# raw text: SAFETY (and INERT by name) only; no claim about blocking

def check_raw(case, reg):
    out, got, texts = evaluate(case)
    pra = pr_author(case)
    names = names_of(case)
    prefix = '@' + case['robot']
    info = []
    for c, text in zip(case['comments'], texts):
        raw = text.strip()
        name = names[c['poster']]
        info.append({'addressed': raw.startswith(prefix) or
                     raw.startswith('/'), 'text': text,
                     'privileged': name in (ADMIN, ADMIN2) and name != pra,
                     'authored': name == pra})
    bad = []
    for k in reg['options']:
        if got[k] == reg['defaults'][k]:
            continue
        src = [i for i in info if i['addressed'] and k in i['text']]
        if not src:
            bad.append(({'clause': 'inert', 'what': 'raw_option_changed'},
                        'option %s=%r but no addressed comment contains it'
                        % (k, got[k])))
        elif not got[k]:
            continue
        elif k in reg['priv'] and not any(i['privileged'] for i in src):
            bad.append(({'clause': 'safety', 'what': 'raw_privileged',
                         'raised': out['type'] != 'ok'},
                        'privileged option %s=%r (outcome %s): no admin != '
                        'author addressed it' % (k, got[k], out['type'])))
        elif k in reg['authored'] and not any(i['authored'] for i in src):
            bad.append(({'clause': 'safety', 'what': 'raw_author_only',
                         'raised': out['type'] != 'ok'},
                        'author-only option %s=%r (outcome %s): the author '
                        'did not address it' % (k, got[k], out['type'])))
    if not any(i['addressed'] for i in info) and out['type'] != 'ok':
        bad.append(({'clause': 'inert', 'what': 'raw_raised',
                     'got': out['type']},
                    'no addressed comment but %s raised' % out['type']))
    hot = any(got[k] for k in reg['priv'] + reg['authored'])
    return out, got, texts, bad, hot


# ---------------------------------------------------------------------------
# shards

def _prepare():
    logging.disable(logging.CRITICAL)
    stubs.stub_render()
    return registry()


def _report(acc, found, reg, shrinker):
    for sig_key in sorted(found):
        sig, msg, case = found[sig_key]
        if shrinker:
            case = shrink(case, sig, reg)
            texts = [render(c) for c in case['comments']]
            again = [m for s, m in run_case(case, reg)[4] if s == sig]
            msg = again[0] if again else msg
        else:
            texts = [c['text'] for c in case['comments']]
        names = names_of(case)
        listing = '; '.join('%s: %r' % (names[c['poster']], t)
                            for c, t in zip(case['comments'], texts))
        acc.violation('%s\n  PR author=%s admins=[%s, %s] robot=%s\n  '
                      'comments: %s' % (msg, pr_author(case), ADMIN, ADMIN2,
                                        case['robot'], listing), case, sig)


def shard_grammar(ctx, shard, acc):
    from hypothesis import given, seed, settings, HealthCheck, Phase
    reg = _prepare()
    idx, n_examples = shard
    strat, _ = strategies(reg)
    found = {}

    @seed(ctx['seed'] * 1000 + idx)
    @settings(database=None, deadline=None, derandomize=False,
              report_multiple_bugs=False, max_examples=n_examples,
              suppress_health_check=list(HealthCheck),
              phases=[Phase.generate])
    @given(strat)
    def prop(case):
        rows, out, got, texts, bad, either = run_case(case, reg)
        cl = classes_of(case, rows, out, reg)
        cl.update(either)
        if any(got[k] for k in reg['priv']):
            cl.add('safety_antecedent_privileged')
        if any(got[k] for k in reg['authored']):
            cl.add('safety_antecedent_approve')
        if not any(r['addressed'] for r in rows):
            cl.add('inert_antecedent')
        if any(r['must'] for r in rows):
            cl.add('blocking_antecedent')
        acc.case(key_of(case, texts), nontrivial(rows, reg),
                 sample={'pr_author': pr_author(case),
                         'comments': key_of(case, texts)[2],
                         'outcome': [out['type'], out['command']],
                         'truthy': sorted(k for k in got if got[k])},
                 classes=sorted(cl))
        if bad:
            acc.cls('violating_cases')
        for sig, msg in bad:
            k = json.dumps(sig, sort_keys=True)
            size = len(json.dumps(case))
            if k not in found or size < found[k][3]:
                found[k] = (sig, msg, case, size)

    prop()
    _report(acc, {k: v[:3] for k, v in found.items()}, reg, True)


def shard_raw(ctx, shard, acc):
    from hypothesis import given, seed, settings, HealthCheck, Phase
    reg = _prepare()
    idx, n_examples = shard
    _, strat = strategies(reg)
    found = {}

    @seed(ctx['seed'] * 1000 + 500 + idx)
    @settings(database=None, deadline=None, derandomize=False,
              report_multiple_bugs=False, max_examples=n_examples,
              suppress_health_check=list(HealthCheck),
              phases=[Phase.generate])
    @given(strat)
    def prop(case):
        out, got, texts, bad, hot = check_raw(case, reg)
        acc.cls('raw_cases')
        acc.cls('raw_outcome_' + (out['type'] if out['type'] in BLOCK_TYPES
                                  or out['type'] == 'ok' else 'other'))
        if hot:
            acc.cls('raw_safety_antecedent')
        acc.case(['raw'] + key_of(case, texts), False)
        if bad:
            acc.cls('violating_cases')
        for sig, msg in bad:
            k = json.dumps(sig, sort_keys=True)
            size = len(json.dumps(case))
            if k not in found or size < found[k][3]:
                found[k] = (sig, msg, case, size)

    prop()
    _report(acc, {k: v[:3] for k, v in found.items()}, reg, False)


# ---------------------------------------------------------------------------
# atheris campaign on raw bytes (thorough tier)

def decode_bytes(data):
    """bytes -> raw case: byte 0 = configuration, then comments separated by
    \\x01, the first byte of each chooses the poster."""
    if len(data) < 2:
        return None
    cfg = 'AB'[data[0] & 1]
    posters = ['author' if cfg == 'A' else 'adminauthor', 'admin', 'other',
               'robot']
    comments = []
    for chunk in data[1:].split(b'\x01')[:3]:
        if not chunk:
            continue
        comments.append({'poster': posters[chunk[0] % 4],
                         'text': chunk[1:].decode('utf-8', 'replace')})
    if not comments:
        return None
    return {'cfg': cfg, 'robot': ROBOTS[0], 'comments': comments,
            'admin_form': 'account' if data[0] & 2 else 'plain'}


def ensure_atheris(home):
    try:
        import atheris  # noqa
        return True
    except Exception:
        pass
    deps = os.path.join(home, '.deps')
    os.makedirs(deps, exist_ok=True)
    subprocess.run([sys.executable, '-m', 'pip', 'install', '-q',
                    '--no-index', '--find-links', '/opt/veriftools/wheels',
                    '--target', deps, 'atheris'],
                   stdout=subprocess.DEVNULL, stderr=subprocess.DEVNULL)
    if deps not in sys.path:
        sys.path.append(deps)
    try:
        import atheris  # noqa
        return True
    except Exception:
        return False


BOOT = ("import sys, atheris\n"
        "with atheris.instrument_imports(include=['bert_e.reactor', "
        "'bert_e.workflow.gitwaterflow']):\n"
        "    import bert_e.reactor, bert_e.workflow.gitwaterflow\n"
        "from vf.checks import c07\n"
        "c07.atheris_child(sys.argv[1:])\n")


def atheris_child(argv):
    """Body of the fuzzing subprocess (started through BOOT so that the
    parser modules are instrumented before anything imports them):
    SEED RUNS OUTFILE WORKDIR"""
    seed_, runs, outfile, workdir = int(argv[0]), int(argv[1]), argv[2], \
        argv[3]
    import atheris
    reg = _prepare()
    state = {'calls': 0, 'n': 0, 'hot': 0, 'raised': 0, 'violations': []}

    def flush():
        with open(outfile + '.tmp', 'w') as f:
            json.dump(state, f)
        os.replace(outfile + '.tmp', outfile)

    def one(data):
        # libFuzzer leaves through exit(): no finally/atexit runs, so the
        # counters are written out periodically and at the last call
        state['calls'] += 1
        case = decode_bytes(data)
        if case is not None:
            out, got, texts, bad, hot = check_raw(case, reg)
            state['n'] += 1
            state['hot'] += bool(hot)
            state['raised'] += out['type'] != 'ok'
            for sig, msg in bad:
                if len(state['violations']) < 20:
                    state['violations'].append([sig, msg, case])
                    flush()
        if state['calls'] % 5000 == 0 or state['calls'] >= runs:
            flush()

    corpus = os.path.join(workdir, 'corpus')
    os.makedirs(corpus, exist_ok=True)
    seeds = [b'\x00\x01@robot bypass_build_status', b'\x01\x00/approve',
             b'\x00\x00@robot: wait, approve\x01\x01/bypass_jira_check',
             b'\x01\x01@robot help\x01\x03hello']
    for i, s in enumerate(seeds):
        with open(os.path.join(corpus, 'seed%d' % i), 'wb') as f:
            f.write(s)
    dic = os.path.join(workdir, 'dict')
    with open(dic, 'w') as f:
        for w in ['@robot', '@robot:', '/', '\\x01'] + reg['options'] + \
                reg['commands']:
            f.write('"%s"\n' % w)
    flush()
    atheris.Setup([sys.argv[0], corpus, '-runs=%d' % runs,
                   '-seed=%d' % seed_, '-dict=' + dic, '-max_len=120',
                   '-artifact_prefix=' + workdir + '/', '-verbosity=0',
                   '-print_final_stats=1'], one)
    atheris.Fuzz()


def run_atheris(ctx, acc, procs, runs):
    if not ensure_atheris(ctx['home']):
        acc.extra['atheris'] = 'unavailable (no importable wheel)'
        return
    root = tempfile.mkdtemp(prefix='vf-c07-atheris-')
    try:
        children = []
        for i in range(procs):
            wd = os.path.join(root, 'w%d' % i)
            os.makedirs(wd)
            out = os.path.join(wd, 'result.json')
            env = dict(os.environ)
            env['PYTHONPATH'] = env.get('PYTHONPATH', '') + os.pathsep + \
                os.path.join(ctx['home'], '.deps')
            p = subprocess.Popen(
                [sys.executable, '-c', BOOT,
                 str(ctx['seed'] * 1000 + i + 1), str(runs), out, wd],
                env=env, cwd=wd, stdout=subprocess.DEVNULL,
                stderr=subprocess.PIPE)
            children.append((p, out))
        total = hot = raised = 0
        for p, out in children:
            err = p.stderr.read().decode('utf-8', 'replace')
            p.wait()
            m = re.search(r'number_of_executed_units: (\d+)', err)
            if not os.path.exists(out) or not m or p.returncode != 0:
                raise HarnessError('atheris child failed:\n' + err[-2000:])
            with open(out) as f:
                st = json.load(f)
            if int(m.group(1)) < runs or st['calls'] < runs:
                raise HarnessError('atheris child stopped early:\n' +
                                   err[-2000:])
            total += st['n']
            hot += st['hot']
            raised += st['raised']
            for sig, msg, case in st['violations']:
                sig = dict(sig, engine='atheris')
                acc.violation(msg + '\n  raw case: %s' % json.dumps(case),
                              case, sig)
        acc.extra['atheris'] = 'ran'
        acc.extra['atheris_runs'] = total
        acc.extra['atheris_safety_antecedent'] = hot
        acc.extra['atheris_raised'] = raised
    finally:
        shutil.rmtree(root, ignore_errors=True)


# ---------------------------------------------------------------------------

def run(ctx):
    registry()
    quick = ctx['tier'] == 'quick'
    per, shards, raw_per = (1300, 16, 250) if quick else (5000, 208, 4000)
    acc = run_shards(__name__, 'shard_grammar', ctx,
                     [(i, per) for i in range(shards)])
    acc.extra['grammar_cases'] = acc.evaluations
    acc2 = run_shards(__name__, 'shard_raw', ctx,
                      [(i, raw_per) for i in range(16)])
    acc.merge_dump(acc2.dump())
    acc.extra['raw_text_cases'] = acc2.evaluations
    if not quick:
        run_atheris(ctx, acc, 16, 400000)
    else:
        acc.extra['atheris'] = 'thorough tier only'
    sub = tuple('outcome_' + t for t in ANY_CMD_OUTCOME) + ('outcome_other',)
    low = [k for k, v in sorted(acc.classes.items())
           if k.startswith(('poster_', 'form_', 'must_', 'may_', 'outcome_'))
           and k not in sub and v < 0.05 * acc.extra['grammar_cases']]
    acc.extra['classes_below_5pct'] = low
    return acc


def replay(ctx, case, acc):
    reg = _prepare()
    if case['comments'] and 'text' in case['comments'][0]:
        bad = check_raw(case, reg)[3]
    else:
        bad = run_case(case, reg)[4]
    for sig, msg in bad:
        acc.violation(msg, case, sig)

