"""C10: re-evaluation converges, never spams, commands run once, outcome
independent of what the instance processed before."""
from hypothesis import strategies as st

from vf.cli import run_shards
from vf.sim import monitors as M
from vf.sim.driver import replay_case, draw_steps
from vf.sim.explore import explore, sig_key
from vf.sim.world import Scratch

LEVEL = 'exploration'
RULE = ('Histories as in C01 with a profile rich in option/command comments '
        '(help, status, reset, force_reset, build, wait, bypasses, wrong-'
        'person and unknown keywords), blocked, queued, merged and declined '
        'pull requests. At generated points an evaluation (PR event or '
        'commit event) is (1) run on a FRESH Bert-E instance and on the '
        'long-lived one from the same snapshot and outcomes compared (job '
        'status, refs, tags, PR states, full comment lists), then (2) '
        'delivered four times in a row on the long-lived instance (the '
        'evaluation, "at most two more", and a further one): the fourth '
        'delivery may change no ref, PR or comment. After every job: '
        'no PR has two adjacent identical robot comments; each command '
        'handler (wrapped in the Reactor registry) ran at most as many times '
        'as such command comments were ever posted on that PR. Non-trivial = '
        'history in which a command was executed or a repeated evaluation '
        'found a blocked/queued PR; distinct by hash of (params, steps).')
ASSUMPTIONS = ['in-tree mock git host; commit dates follow a logical clock so '
               'that twin runs are bit-comparable']

WEIGHTS = {'comment': 12, 'delete_comment': 3, 'pr_event': 14,
           'commit_event': 8, 'advance': 14, 'merge_queue': 8, 'admin': 1,
           'decline': 2, 'manual': 2, 'push_src': 5}


CMDS = ('@robot reset', '@robot help', '@robot status', '@robot force_reset',
        '@robot build', '/reset')


def monitors():
    return [M.C10NoSpam()]


def body_factory(known):
    def body(data, hist):
        n = data.draw(st.integers(10, 28), label='nsteps')
        stop = False
        probes = 0
        while len(hist.steps) < n + 2 * probes and not stop:
            steps = draw_steps(data, hist, WEIGHTS)
            prs = sorted(hist.world.prs)
            if prs and data.draw(st.integers(0, 7), label='cmd2') == 0:
                # the same command posted again right after its answer
                pr = prs[data.draw(st.integers(0, len(prs) - 1),
                                   label='cpr')]
                text = CMDS[data.draw(st.integers(0, len(CMDS) - 1),
                                      label='ctext')]
                user = hist.world.prs[pr]['author']
                ev = {'op': 'pr_event', 'pr': pr}
                steps = [{'op': 'comment', 'pr': pr, 'user': user,
                          'text': text}, ev,
                         {'op': 'comment', 'pr': pr, 'user': user,
                          'text': text}, ev, ev, ev]
                hist.flags.add('c10_command_twice')
            elif prs and data.draw(st.integers(0, 7), label='stale') == 0:
                # instance-state probe: a job that ends early (it may not even
                # clone), then the outside world moves, then an evaluation is
                # compared between the long-lived and a fresh instance
                pr = prs[data.draw(st.integers(0, len(prs) - 1),
                                   label='spr')]
                dests = sorted(n for n in hist.world.heads()
                               if n.startswith('development/'))
                early = [{'op': 'commit_event', 'sel': {'ref': dests[0]}}] \
                    if dests else []
                kind = ('add', 'amend', 'rebase')[data.draw(
                    st.integers(0, 2), label='skind')]
                src = hist.world.prs[pr]['src']
                ev = [{'op': 'commit_event', 'sel': {'ref': src}},
                      {'op': 'pr_event', 'pr': pr}][data.draw(
                          st.integers(0, 1), label='sev')]
                steps = early + [{'op': 'push_src', 'pr': pr, 'kind': kind},
                                 {'op': 'twin', 'tag': 'C10', 'a': ev,
                                  'b': ev, 'fresh_b': True}, ev]
                hist.flags.add('c10_instance_state_probe')
            elif len(prs) >= 2 and data.draw(st.integers(0, 7),
                                             label='leak') == 0:
                # option-state probe: a PR carrying an option with an
                # argument (a dependency on another open PR) is evaluated,
                # then ANOTHER PR is evaluated on the long-lived and on a
                # fresh instance
                i = data.draw(st.integers(0, len(prs) - 1), label='lx')
                j = data.draw(st.integers(0, len(prs) - 2), label='ly')
                x = prs[i]
                y = [p for p in prs if p != x][j]
                steps = [{'op': 'comment', 'pr': x,
                          'user': hist.world.prs[x]['author'],
                          'text': '@robot after_pull_request=%d' % y},
                         {'op': 'pr_event', 'pr': x},
                         {'op': 'twin', 'tag': 'C10',
                          'a': {'op': 'pr_event', 'pr': y},
                          'b': {'op': 'pr_event', 'pr': y}, 'fresh_b': True},
                         {'op': 'pr_event', 'pr': y}]
                hist.flags.add('c10_option_state_probe')
            elif prs and data.draw(st.integers(0, 7), label='adm') == 0:
                # settings-state probe: a pull request authored by an admin
                # is evaluated (for its own PR the admin is an ordinary
                # author), then a PR of somebody else on which the same admin
                # set a privileged option is evaluated on the long-lived and
                # on a fresh instance
                from vf.sim.world import ADMIN
                from vf.sim.driver import is_dest
                x = prs[data.draw(st.integers(0, len(prs) - 1), label='ax')]
                dests = sorted(n_ for n_ in hist.world.heads()
                               if is_dest(n_))
                opt = ('bypass_peer_approval', 'bypass_author_approval',
                       'bypass_build_status', 'bypass_jira_check')[
                    data.draw(st.integers(0, 3), label='aopt')]
                if dests and hist.world.prs[x]['author'] != ADMIN:
                    pid_ = max(p_[0] for p_ in hist.world.all_prs()) + 1
                    steps = [
                        {'op': 'comment', 'pr': x, 'user': ADMIN,
                         'text': '@robot ' + opt},
                        {'op': 'pr_event', 'pr': x},
                        {'op': 'open_pr', 'author': ADMIN, 'base_back': 0,
                         'src': 'bugfix/TEST-%d-adm' % (60 + len(hist.steps)),
                         'dst': dests[data.draw(st.integers(
                             0, len(dests) - 1), label='adst')]},
                        {'op': 'pr_event', 'pr': pid_},
                        {'op': 'twin', 'tag': 'C10',
                         'a': {'op': 'pr_event', 'pr': x},
                         'b': {'op': 'pr_event', 'pr': x}, 'fresh_b': True},
                        {'op': 'pr_event', 'pr': x}]
                    hist.flags.add('c10_admin_author_probe')
            for step in steps:
                probe = step['op'] in ('pr_event', 'commit_event') and \
                    probes < 5 and data.draw(st.integers(0, 2),
                                             label='probe') == 0
                if probe:
                    probes += 1
                    hist.apply({'op': 'twin', 'tag': 'C10', 'a': step,
                                'b': step, 'fresh_b': True})
                    res = hist.apply({'op': 'repeat', 'job': step,
                                      'times': 3})
                    if res and res[0].status not in (
                            'NothingToDo', 'NotMyJob', ''):
                        hist.flags.add('c10_probe_live')
                else:
                    hist.apply(step)
                if step['op'] == 'admin':
                    hist.apply({'op': 'drain'})
                if any(sig_key(s) not in known for _, s in hist.violations):
                    stop = True
                    break
    return body


def nontrivial(h):
    return 'c10_command' in h.flags or 'c10_probe_live' in h.flags


def classes(h):
    return ['mode_' + h.world.mode] + ['flag_' + f for f in sorted(h.flags)]


def shard(ctx, i, acc):
    n = 5 if ctx['tier'] == 'quick' else 40
    explore(ctx, i, acc, monitors, n, nontrivial=nontrivial, classes=classes,
            body=body_factory(set()))


def run(ctx):
    return run_shards(__name__, 'shard', ctx, list(range(ctx['nproc'])))


def replay(ctx, case, acc):
    sc = Scratch()
    try:
        viols, _ = replay_case(sc, case, monitors())
        for msg, sig in viols:
            acc.violation(msg, case, sig)
    finally:
        sc.cleanup()
