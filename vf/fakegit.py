"""In-memory git for engine E2 + a recipe that builds GitWaterFlow queues.

* `Dag`       : commit graph (sha -> parents), refs (name -> sha), tags.
* `FakeRepo`  : `bert_e.lib.git.Repository` subclass whose `cmd` answers the
                few git commands the branch / cascade / queue classes issue,
                from a `Dag`.  Non-ancestor and unknown refs raise the real
                `bert_e.lib.simplecmd.CommandError`, like a failing git.
* `MemBackend` / `RealBackend` : execute the same abstract recipe (branch,
                commit, --no-ff merge, tag) on a `Dag` or in a real scratch
                repository, so that the in-memory builder can be validated
                against real git.
* `build_queue_world(spec, backend)` : a cascade + queued pull requests, the
                queue commits being built by the recipe of
                `queueing.add_to_queue` (q/<v> <- w/<v>/<src> U previous
                q/w/<pr>/<v'>/<src>; q/w/<pr>/<v>/<src> created at q/<v>),
                always with a merge commit (general, non fast-forward shape).

Nothing here decides a property; it only stands for git.
"""
import hashlib
import os
import re
import shlex
import shutil
import subprocess
import tempfile

from bert_e.lib import git
from bert_e.lib.simplecmd import CommandError


# --------------------------------------------------------------------- DAG

class Dag:
    def __init__(self):
        self.parents = []      # index -> tuple of parent indexes
        self.anc = []          # index -> bitmask of ancestors (incl. self)
        self.shas = []         # index -> 40-hex
        self.by_sha = {}
        self.refs = {}         # branch name -> index
        self.tags = {}         # tag name -> index
        self.notes = []        # index -> label (debugging)

    def commit(self, parents, label=''):
        i = len(self.parents)
        mask = 1 << i
        for p in parents:
            mask |= self.anc[p]
        sha = hashlib.sha1(('vf-commit-%d' % i).encode()).hexdigest()
        self.parents.append(tuple(parents))
        self.anc.append(mask)
        self.shas.append(sha)
        self.by_sha[sha] = i
        self.notes.append(label)
        return i

    def resolve(self, name):
        """Branch name, origin/<branch>, tag or (abbreviated) sha -> index."""
        name = str(name)
        if name in self.refs:
            return self.refs[name]
        if name.startswith('origin/') and name[7:] in self.refs:
            return self.refs[name[7:]]
        if name in self.tags:
            return self.tags[name]
        if name in self.by_sha:
            return self.by_sha[name]
        if len(name) >= 7 and re.fullmatch(r'[0-9a-f]+', name):
            hits = [i for s, i in self.by_sha.items() if s.startswith(name)]
            if len(hits) == 1:
                return hits[0]
        return None

    def is_ancestor(self, a, b):
        return bool((self.anc[b] >> a) & 1)


class UnsupportedGitCommand(Exception):
    """The code under test issued a git command the fake does not model:
    a harness gap (exit 2), never a verdict."""


class FakeRepo(git.Repository):
    def __init__(self, dag):
        self.dag = dag
        self._url = 'fake://repo'
        self._mask_pwd = ''
        self.tmp_directory = None
        self.cmd_directory = None
        self.head = None
        self.log = None        # set to a list to record commands
        self._memo = {}

    # deep copies of branch objects (QueueCollection deep-copies its tables)
    # must not duplicate the repository
    def __deepcopy__(self, memo):
        return self

    def reset(self):
        pass

    def delete(self):
        pass

    def clone(self):
        pass

    def cmd(self, command, *args, **kwargs):
        if args:
            command = command % tuple(
                shlex.quote(arg.strip()) if isinstance(arg, str) and arg
                else arg for arg in args)
        if self.log is not None:
            self.log.append(command)
        # the graph is frozen once built: answers are memoised per command
        memo = self._memo.get(command)
        if memo is not None:
            if memo[0] == 'checkout':
                self.head = memo[1]
                return ''
            if memo[0] == 'err':
                raise CommandError(memo[1])
            return memo[1]
        try:
            out = self._cmd(command)
        except CommandError as e:
            self._memo[command] = ('err', str(e))
            raise
        if command.startswith('git checkout '):
            self._memo[command] = ('checkout', self.head)
        elif not command.startswith('git branch -a'):
            self._memo[command] = ('out', out)
        return out

    def _cmd(self, command):
        argv = shlex.split(command)
        if argv[:1] != ['git']:
            raise UnsupportedGitCommand(command)
        argv = argv[1:]
        dag = self.dag
        if argv[:2] == ['merge-base', '--is-ancestor'] and len(argv) == 4:
            a, b = dag.resolve(argv[2]), dag.resolve(argv[3])
            if a is None or b is None:
                raise CommandError('Command %s returned with code 128: '
                                   'fatal: Not a valid object name' % command)
            if not dag.is_ancestor(a, b):
                raise CommandError('Command %s returned with code 1: '
                                   % command)
            return ''
        if argv[:1] == ['rev-parse'] and len(argv) == 2:
            i = dag.resolve(argv[1])
            if i is None:
                raise CommandError('Command %s returned with code 128: '
                                   'unknown revision' % command)
            return dag.shas[i] + '\n'
        if argv[:1] == ['checkout'] and len(argv) == 2:
            if argv[1] not in dag.refs:
                raise CommandError('Command %s returned with code 1: error: '
                                   'pathspec did not match' % command)
            self.head = argv[1]
            return ''
        if argv[:3] == ['branch', '-r', '--list'] and len(argv) == 4:
            return self._list(argv[3], remote_only=True)
        if argv[:3] == ['branch', '-a', '--list'] and len(argv) == 4:
            return self._list(argv[3], remote_only=False)
        if argv == ['tag']:
            return ''.join('%s\n' % t for t in sorted(dag.tags))
        raise UnsupportedGitCommand(command)

    def _list(self, pattern, remote_only):
        import fnmatch
        out = []
        names = sorted(self.dag.refs)
        if not remote_only:
            for n in names:
                if fnmatch.fnmatchcase(n, pattern):
                    out.append('%s %s\n' % ('*' if n == self.head else ' ',
                                            n))
            for n in names:
                if fnmatch.fnmatchcase('remotes/origin/' + n, pattern):
                    out.append('  remotes/origin/%s\n' % n)
        else:
            for n in names:
                if fnmatch.fnmatchcase('origin/' + n, pattern):
                    out.append('  origin/%s\n' % n)
        return ''.join(out)


# ---------------------------------------------------------------- backends

class MemBackend:
    """Executes the recipe on a Dag. Every merge creates a commit."""
    def __init__(self):
        self.dag = Dag()

    def root(self, branch, label):
        self.dag.refs[branch] = self.dag.commit((), label)

    def branch(self, new, src):
        self.dag.refs[new] = self.dag.refs[src]

    def commit(self, branch, label):
        self.dag.refs[branch] = self.dag.commit((self.dag.refs[branch],),
                                                label)

    def merge(self, dst, srcs):
        ps = [self.dag.refs[dst]] + [self.dag.refs[s] for s in srcs]
        self.dag.refs[dst] = self.dag.commit(
            ps, 'merge %s into %s' % (','.join(srcs), dst))

    def tag(self, name, at):
        self.dag.tags[name] = self.dag.refs[at]

    def sha(self, ref):
        return self.dag.shas[self.dag.refs[ref]]

    def close(self):
        pass


GIT_ENV = {
    'GIT_AUTHOR_NAME': 'vf', 'GIT_AUTHOR_EMAIL': 'vf@nowhere',
    'GIT_COMMITTER_NAME': 'vf', 'GIT_COMMITTER_EMAIL': 'vf@nowhere',
    'GIT_AUTHOR_DATE': '2020-01-01T00:00:00 +0000',
    'GIT_COMMITTER_DATE': '2020-01-01T00:00:00 +0000',
    'GIT_CONFIG_NOSYSTEM': '1', 'GIT_TERMINAL_PROMPT': '0',
    'GIT_MERGE_AUTOEDIT': 'no',
}


class RealBackend:
    """Executes the recipe with real git in a scratch directory (`git init`,
    porcelain commits, `git merge --no-ff`), then offers a clone in which the
    branches are remote-tracking refs of `origin`, the situation Bert-E's
    working clone is in."""
    def __init__(self):
        self.root_dir = tempfile.mkdtemp(prefix='vf-realgit-')
        self.work = os.path.join(self.root_dir, 'origin')
        os.mkdir(self.work)
        self.env = dict(os.environ)
        self.env.update(GIT_ENV)
        self.env['HOME'] = self.root_dir
        self.git('init', '-q', '-b', 'init')
        self.git('config', 'merge.renameLimit', '999999')
        self.n = 0

    def git(self, *argv, cwd=None, check=True):
        p = subprocess.run(('git',) + argv, cwd=cwd or self.work,
                           env=self.env, stdout=subprocess.PIPE,
                           stderr=subprocess.STDOUT, text=True)
        if check and p.returncode != 0:
            raise RuntimeError('git %s failed: %s' % (' '.join(argv),
                                                      p.stdout))
        return p

    def _commit_file(self, label):
        self.n += 1
        path = os.path.join(self.work, 'f-%s' % re.sub(r'\W', '_', label))
        with open(path, 'a') as f:
            f.write('%s %d\n' % (label, self.n))
        self.git('add', '-A')
        self.git('commit', '-q', '-m', label)

    def root(self, branch, label):
        self.git('checkout', '-q', '-B', branch)
        self._commit_file(label)

    def branch(self, new, src):
        self.git('branch', '-f', new, src)

    def commit(self, branch, label):
        self.git('checkout', '-q', branch)
        self._commit_file(label)

    def merge(self, dst, srcs):
        self.git('checkout', '-q', dst)
        p = self.git('merge', '--no-ff', '--no-edit', '-q', *srcs,
                     check=False)
        if p.returncode != 0:
            # what robust_merge falls back to: consecutive 2-way merges
            self.git('reset', '-q', '--hard', dst)
            for s in srcs:
                self.git('merge', '--no-ff', '--no-edit', '-q', s)

    def tag(self, name, at):
        self.git('tag', name, at)

    def sha(self, ref):
        return self.git('rev-parse', ref).stdout.strip()

    def clone(self):
        """A clone whose origin is the scratch repository; returns a real
        bert_e.lib.git.Repository working in it."""
        self.git('checkout', '-q', 'init')
        self._saved_env = {k: os.environ.get(k) for k in
                           list(GIT_ENV) + ['HOME']}
        os.environ.update(GIT_ENV)
        os.environ['HOME'] = self.root_dir     # mirror cache ~/.bert-e
        repo = git.Repository(self.work)
        # the real clone procedure (mirror, every branch local, origin/*)
        shutil.rmtree(repo.tmp_directory, ignore_errors=True)
        repo.tmp_directory = os.path.join(self.root_dir, 'clone')
        os.mkdir(repo.tmp_directory)
        repo.cmd_directory = repo.tmp_directory
        repo.clone()
        return repo

    def close(self):
        for k, v in getattr(self, '_saved_env', {}).items():
            if v is None:
                os.environ.pop(k, None)
            else:
                os.environ[k] = v
        shutil.rmtree(self.root_dir, ignore_errors=True)


# ------------------------------------------------------------------ recipe

def vkey(v):
    """'4.3' -> (4, 3); '4' -> (4, None)"""
    parts = v.split('.')
    return (int(parts[0]), int(parts[1]) if len(parts) > 1 else None)


def branch_of(version):
    """Queue version string -> destination branch name."""
    n = version.count('.')
    if n == 3:
        return 'hotfix/' + version.rsplit('.', 1)[0]
    if n == 2:
        return 'stabilization/' + version
    return 'development/' + version


def targets(spec, dst):
    """Queue versions (strings, in forward-port order) a pull request to
    `dst` gets a queue commit on.

    spec['devs'] is ordered oldest -> newest by construction."""
    devs = spec['devs']
    kind, _, ver = dst.partition('/')
    if kind == 'hotfix':
        return ['%s.%d' % (ver, spec.get('hfrev', 1))]
    if kind == 'stabilization':
        xy = ver.rsplit('.', 1)[0]
        return [ver] + devs[devs.index(xy):]
    return devs[devs.index(ver):]


def src_name(pr_id):
    return 'bugfix/TEST-%04d' % pr_id


def build_queue_world(spec, be):
    """spec = {'devs': ['4.3', '5.1', '10.0'],       oldest -> newest
               'stabs': ['5.1.4'],                   x.y must be in devs
               'hotfixes': ['4.2.7'],                x.y in devs or older
               'hfrev': 1,
               'prs': [[pr_id, 'development/4.3'], ...]}   order of entry

    Returns {(pr_id, version): name of the q/w branch}; be.sha(name) is the
    queue commit of that pull request on that version."""
    devs = spec['devs']
    stabs = {s.rsplit('.', 1)[0]: s for s in spec.get('stabs', [])}
    hotfixes = {}
    for h in spec.get('hotfixes', []):
        hotfixes.setdefault(h.rsplit('.', 1)[0], []).append(h)
    hfrev = spec.get('hfrev', 1)

    def add_hotfix(h, at):
        # hotfix/x.y.z starts at the release tag x.y.z; hfrev-1 further tags
        be.tag(h, at)
        be.branch('hotfix/' + h, at)
        be.commit('hotfix/' + h, 'hf-' + h)
        for r in range(1, hfrev):
            be.tag('%s.%d' % (h, r), 'hotfix/' + h)
            be.commit('hotfix/' + h, 'hf-%s.%d' % (h, r))

    be.root('init', 'root')
    for xy in sorted(hotfixes):
        if xy not in devs:
            for h in hotfixes[xy]:
                add_hotfix(h, 'init')
    prev = 'init'
    for v in devs:
        b = 'development/' + v
        be.branch(b, prev)
        be.commit(b, 'dev-' + v)
        for h in hotfixes.get(v, []):
            add_hotfix(h, b)
        if v in stabs:
            be.branch('stabilization/' + stabs[v], b)
        be.commit(b, 'dev2-' + v)
        prev = b

    qcommits = {}
    have_q = set()
    # feature branches exist before anything is queued
    for pr_id, dst in spec['prs']:
        src = src_name(pr_id)
        be.branch(src, dst)
        be.commit(src, 'pr-%d' % pr_id)
    for pr_id, dst in spec['prs']:
        src = src_name(pr_id)
        tv = targets(spec, dst)
        prev_w = src
        ws = []
        for v in tv:
            w = 'w/%s/%s' % (v, src)
            be.branch(w, branch_of(v))
            be.merge(w, [prev_w])
            prev_w = w
            ws.append(w)
        qint = None
        for v, w in zip(tv, ws):
            q = 'q/' + v
            if q not in have_q:
                be.branch(q, branch_of(v))
                have_q.add(q)
            be.merge(q, [w] if qint is None else [w, qint])
            qint = 'q/w/%d/%s/%s' % (pr_id, v, src)
            be.branch(qint, q)
            qcommits[(pr_id, v)] = qint
    return qcommits
