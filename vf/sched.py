"""Engine E3: an owned, deterministic scheduler for real threads.

Real code runs in real threads.  Every thread created through `Sched.spawn`
installs a trace function; each `line` event in one of the *traced files* parks
the thread on its own binary semaphore.  The controller (the caller's thread)
lets exactly one thread run at a time, so an execution is a sequence of
*steps* (thread, line it was parked at) chosen by a `chooser`.  Nothing depends
on the wall clock: the only timeouts are a generous watchdog whose expiry is a
harness error (`Stuck`), never a verdict.

A parked thread may carry a *guard*: it is enabled only while guard() is true
(that is how a blocking `Queue.get()` is modelled).  When no thread is enabled
and some are parked, `on_idle` decides (stop them, or `Stuck`).

Choices are recorded in a normal form that any later run can replay:
at every step with more than one enabled thread one integer c is logged,
c == 0 : the default (keep running the current thread if it is enabled,
         otherwise the enabled thread with the smallest id),
c >= 1 : the (c-1)-th of the other enabled threads in id order.
A non-default choice while the current thread is still enabled is a
*preemption*.
"""
import os
import sys
import threading
import traceback
import _thread

NEW, PARKED, RUNNING, DONE = 'new', 'parked', 'running', 'done'
STOP = 'stop'


class Stuck(Exception):
    """The harness lost control of a thread (always a harness error)."""


class Abort(BaseException):
    """Raised inside a scheduled thread by harness code: harness error."""


class _PoolThread:
    """A persistent daemon thread that runs one task at a time (creating a
    thread costs about a millisecond here, a schedule has four of them)."""
    def __init__(self, n):
        self.go = _thread.allocate_lock()
        self.go.acquire()
        self.task = None
        self.thread = threading.Thread(target=self._loop, daemon=True,
                                       name='sched-pool-%d' % n)
        self.thread.start()

    def _loop(self):
        while True:
            self.go.acquire()
            task, self.task = self.task, None
            task()

    def submit(self, task):
        self.task = task
        self.go.release()


class _Pool:
    def __init__(self):
        self.pid = None
        self.free = []
        self.made = 0

    def take(self):
        if self.pid != os.getpid():     # threads do not survive a fork
            self.pid = os.getpid()
            self.free = []
        if self.free:
            return self.free.pop()
        self.made += 1
        return _PoolThread(self.made)

    def give_back(self, pts):
        if self.pid == os.getpid():
            self.free.extend(pts)


POOL = _Pool()


class Sched:
    """The scheduling decision is taken by whichever thread just reached a
    park point (it holds the baton: exactly one thread runs at any time), so
    continuing the same thread costs no context switch at all."""

    def __init__(self, traced_files, watchdog=300.0, max_steps=100000):
        # {absolute file name: short tag}
        self.traced = dict(traced_files)
        self.watchdog = watchdog
        self.max_steps = max_steps
        self.ctl = _thread.allocate_lock()
        self.ctl.acquire()
        self.sems = []
        self.state = []
        self.tag = []
        self.guard = []
        self.msg = []
        self.names = []
        self.threads = []
        self.started = False
        self.cur = None
        self.chooser = None
        self.on_idle = None
        self.fatal = None
        self.step = 0           # number of steps started so far
        self.trace = []         # [(tid, tag)] one per step
        self.choices = []       # normal-form choice list
        self.decisions = []     # [(step, n_alternatives, default_continues)]
        self.preemptions = 0
        self.switches = 0
        self.errors = []        # harness-side failures inside threads

    # -- baton ------------------------------------------------------------
    def _pick(self):
        """Decide which parked thread runs the next step (None: all done)."""
        n = len(self.sems)
        state, guard = self.state, self.guard
        enabled = [t for t in range(n) if state[t] == PARKED and
                   (guard[t] is None or guard[t]())]
        msg = None
        if not enabled:
            parked = [t for t in range(n) if state[t] == PARKED]
            if not parked:
                return None
            if self.on_idle is None or not self.on_idle(self, parked):
                raise Stuck('every live thread is blocked: %r' %
                            [(self.names[t], self.tag[t]) for t in parked])
            pick = parked[0]
            msg = STOP
        else:
            cur = self.cur
            cont = cur in enabled
            default = cur if cont else enabled[0]
            pick = self.chooser(self, cur, enabled, default)
            if len(enabled) > 1:
                others = [t for t in enabled if t != default]
                if pick == default:
                    c = 0
                else:
                    c = 1 + others.index(pick)
                    if cont:
                        self.preemptions += 1
                self.choices.append(c)
                self.decisions.append((self.step, len(others), cont))
            elif pick != default:
                raise Stuck('chooser picked a thread that is not enabled')
        if self.step >= self.max_steps:
            raise Stuck('more than %d steps' % self.max_steps)
        self.trace.append((pick, self.tag[pick]))
        self.msg[pick] = msg
        state[pick] = RUNNING
        self.step += 1
        if pick != self.cur:
            self.switches += 1
        self.cur = pick
        return pick

    def _fatal(self, exc):
        self.fatal = exc
        self.ctl.release()

    # -- thread side ------------------------------------------------------
    def park(self, tid, tag, guard=None):
        self.tag[tid] = tag
        self.guard[tid] = guard
        self.state[tid] = PARKED
        if not self.started:
            self.ctl.release()
            self.sems[tid].acquire()
            return self.msg[tid]
        try:
            nxt = self._pick()
        except BaseException as e:     # never let it into the traced code
            self._fatal(e)
            self.sems[tid].acquire()   # parked for good (daemon thread)
            raise Abort('scheduler failed')
        if nxt != tid:
            self.sems[nxt].release()
            self.sems[tid].acquire()
        return self.msg[tid]

    def _tracer(self, tid):
        traced = self.traced
        park = self.park

        def local(frame, event, arg):
            if event == 'line':
                code = frame.f_code
                park(tid, (traced[code.co_filename], code.co_name,
                           frame.f_lineno))
            return local

        def glob(frame, event, arg):
            if frame.f_code.co_filename in traced:
                return local
            return None
        return glob

    def _body(self, tid, fn):
        sys.settrace(self._tracer(tid))
        try:
            self.park(tid, ('start',))
            fn(self, tid)
        except BaseException:
            self.errors.append('thread %s: %s' % (self.names[tid],
                                                  traceback.format_exc()))
        finally:
            sys.settrace(None)
            self.state[tid] = DONE
            try:
                nxt = self._pick()
            except BaseException as e:
                self._fatal(e)
            else:
                if nxt is None:
                    self.ctl.release()
                else:
                    self.sems[nxt].release()

    # -- controller side --------------------------------------------------
    def _wait(self, what):
        if not self.ctl.acquire(timeout=self.watchdog):
            raise Stuck('watchdog: no report while %s (states %r, tags %r)'
                        % (what, self.state, self.tag))
        if self.fatal is not None:
            raise self.fatal

    def spawn(self, name, fn):
        tid = len(self.sems)
        sem = _thread.allocate_lock()
        sem.acquire()
        self.sems.append(sem)
        self.state.append(NEW)
        self.tag.append(None)
        self.guard.append(None)
        self.msg.append(None)
        self.names.append(name)
        pt = POOL.take()
        self.threads.append(pt)
        pt.submit(lambda: self._body(tid, fn))
        self._wait('starting %s' % name)
        return tid

    def run(self, chooser, on_idle=None):
        """chooser(sched, cur, enabled, default) -> tid in enabled."""
        self.chooser = chooser
        self.on_idle = on_idle
        self.started = True
        nxt = self._pick()
        if nxt is not None:
            self.sems[nxt].release()
            self._wait('running the schedule')
        self.join()

    def join(self):
        """Every body has returned (the last one woke us up); the pool
        threads are reusable.  After a Stuck they are never given back."""
        left = [self.names[t] for t in range(len(self.sems))
                if self.state[t] != DONE]
        if left:
            raise Stuck('threads %r did not terminate' % left)
        POOL.give_back(self.threads)
        self.threads = []


# -- choosers -------------------------------------------------------------

class ChoiceList:
    """Replay of a normal-form choice list, default choice beyond its end."""
    def __init__(self, choices):
        self.choices = list(choices)
        self.i = 0

    def __call__(self, sched, cur, enabled, default):
        if len(enabled) == 1:
            return default
        c = self.choices[self.i] if self.i < len(self.choices) else 0
        self.i += 1
        if c == 0:
            return default
        others = [t for t in enabled if t != default]
        return others[(c - 1) % len(others)]


class Sparse:
    """Default schedule except at the listed decision points:
    points = {decision index: alternative number >= 1}."""
    def __init__(self, points):
        self.points = dict(points)
        self.i = 0

    def __call__(self, sched, cur, enabled, default):
        if len(enabled) == 1:
            return default
        c = self.points.get(self.i, 0)
        self.i += 1
        if c == 0:
            return default
        others = [t for t in enabled if t != default]
        return others[(c - 1) % len(others)]


class PCT:
    """Probabilistic-concurrency-testing style: strict priorities, and at each
    change point (a step number) the thread about to run drops to the lowest
    priority."""
    def __init__(self, prio, changes):
        self.prio = {t: p for t, p in enumerate(prio)}
        self.changes = sorted(set(changes))
        self.low = 0

    def __call__(self, sched, cur, enabled, default):
        best = max(enabled, key=lambda t: (self.prio.get(t, 0), -t))
        if self.changes and sched.step >= self.changes[0]:
            self.changes.pop(0)
            self.low -= 1
            self.prio[best] = self.low
            best = max(enabled, key=lambda t: (self.prio.get(t, 0), -t))
        return best


class Targeted:
    """Priority order `prio` (as PCT without change points), except that the
    k-th time the running thread could be preempted *between two consecutive
    steps inside one of the functions `funcs`*, the alternative points[k] is
    taken.  Used to aim preemptions at a critical window; the run is still
    recorded (and replayed) as a plain choice list."""
    def __init__(self, prio, points, funcs):
        self.base = PCT(prio, [])
        self.points = dict(points)
        self.funcs = frozenset(funcs)
        self.k = 0

    def __call__(self, sched, cur, enabled, default):
        if len(enabled) > 1 and cur in enabled and sched.trace:
            last_t, last_tag = sched.trace[-1]
            now = sched.tag[cur]
            if last_t == cur and len(last_tag) == 3 and len(now) == 3 and \
                    last_tag[1] in self.funcs and now[1] in self.funcs:
                alt = self.points.get(self.k, 0)
                self.k += 1
                if alt:
                    others = [t for t in enabled if t != cur]
                    # drop the preempted thread behind the others
                    self.base.low -= 1
                    self.base.prio[cur] = self.base.low
                    return others[(alt - 1) % len(others)]
                return cur
        if cur in enabled:
            return cur
        return self.base(sched, cur, enabled, default)
