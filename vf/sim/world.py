"""Engine E1: one World = real Bert-E + real git + the in-tree mock host.

Nothing here decides a property; monitors (vf/sim/monitors.py) do, from the
observation points this module offers: ref journal (reference-transaction
hook of the scratch remote), ref/tag snapshots, host journal, job outcomes.
"""
import copy
import json
import logging
import os
import shutil
import tempfile
from collections import namedtuple

from vf.sim.gitutil import (git, refs, is_ancestor, install_hooks,
                            logical_date, GitError)

logging.getLogger().addHandler(logging.NullHandler())

ROBOT = 'robot'
AUTHOR = 'author'
AUTHOR2 = 'author2'
PEER1 = 'peer1'
PEER2 = 'peer2'
LEADER = 'leader'
ADMIN = 'admin'
USERS = (AUTHOR, AUTHOR2, PEER1, PEER2, LEADER, ADMIN, ROBOT)
BUILD_KEY = 'pre-merge'
Z40 = '0' * 40

# devs: tuple of (major, minor|None) ; stabs: tuple of (major, minor) ;
# hotfix: 'none' | 'orphan' | 'online'
Shape = namedtuple('Shape', 'devs stabs hotfix rename', defaults=(False,))

STAB_MICRO = 4


def dev_sort_key(v):
    major, minor = v
    return (major, 10 ** 6 if minor is None else minor)


def vname(v):
    return '%d' % v[0] if v[1] is None else '%d.%d' % v


def shape_branches(shape):
    """Destination branches of a shape; chain = forward-port order."""
    chain = []
    for v in sorted(shape.devs, key=dev_sort_key):
        if v in shape.stabs:
            chain.append('stabilization/%d.%d.%d' % (v[0], v[1], STAB_MICRO))
        chain.append('development/' + vname(v))
    hot = []
    if shape.hotfix in ('orphan', 'both'):
        hot.append('hotfix/4.2.17')
    if shape.hotfix in ('online', 'both'):
        v = [d for d in sorted(shape.devs, key=dev_sort_key)
             if d[1] is not None][0]
        hot.append('hotfix/%d.%d.2' % v)
    return chain, hot


class Crash(BaseException):
    """Injected death of the Bert-E process."""


class Scratch:
    """Per-process scratch root; everything the sim writes lives here."""
    def __init__(self):
        # a previous World of this process may have pointed tempfile at its
        # (now deleted) private tmp directory
        tempfile.tempdir = None
        os.environ.pop('TMPDIR', None)
        self.root = tempfile.mkdtemp(prefix='vf-')
        self.templates = {}
        self.n = 0

    def cleanup(self):
        tempfile.tempdir = None
        os.environ.pop('TMPDIR', None)
        shutil.rmtree(self.root, ignore_errors=True)

    def template(self, shape):
        if shape in self.templates:
            return self.templates[shape]
        d = os.path.join(self.root, 'tpl%d' % len(self.templates))
        os.makedirs(d)
        work = os.path.join(d, 'dev')
        remote = os.path.join(d, 'remote.git')
        t = [0]

        def g(*a):
            t[0] += 1
            dt = logical_date(t[0])
            return git(work, *a, env={'GIT_AUTHOR_DATE': dt,
                                      'GIT_COMMITTER_DATE': dt,
                                      'VF_ACTOR': 'harness'})

        def add_file(name, content):
            with open(os.path.join(work, name), 'w') as f:
                f.write(content)
            g('add', name)

        git(d, 'init', '-q', '--bare', 'remote.git')
        git(remote, 'symbolic-ref', 'HEAD', 'refs/heads/__none__')
        git(d, 'init', '-q', '--initial-branch=master', 'dev')
        g('config', 'user.email', 'dev@nowhere.com')
        g('config', 'user.name', 'dev')
        g('config', 'advice.detachedHead', 'false')
        add_file('a', 'a\n')
        add_file('shared.txt', ''.join('line %d\n' % i for i in range(20)))
        g('commit', '-q', '-m', 'Initial commit')
        g('remote', 'add', 'origin', remote)
        prev = 'master'
        for v in sorted(shape.devs, key=dev_sort_key):
            if v in shape.stabs:
                name = 'stabilization/%d.%d.%d' % (v[0], v[1], STAB_MICRO)
                g('tag', '%d.%d.%d' % (v[0], v[1], STAB_MICRO - 1), prev)
                g('checkout', '-q', '-b', name, prev)
                add_file('file_' + name.replace('/', '_'), name + '\n')
                g('commit', '-q', '-m', 'adds file on ' + name)
                prev = name
            name = 'development/' + vname(v)
            g('checkout', '-q', '-b', name, prev)
            add_file('file_' + name.replace('/', '_'), name + '\n')
            if shape.rename and v == sorted(shape.devs,
                                            key=dev_sort_key)[-1]:
                g('mv', 'shared.txt', 'shared_renamed.txt')
            g('commit', '-q', '-m', 'adds file on ' + name)
            prev = name
        _, hot = shape_branches(shape)
        for name in hot:
            ver = name.split('/')[1]
            g('checkout', '-q', '-b', name, 'master')
            add_file('file_' + name.replace('/', '_'), name + '\n')
            g('commit', '-q', '-m', 'adds file on ' + name)
            g('tag', ver, 'master')
        g('checkout', '-q', '--detach')
        g('branch', '-D', 'master')
        g('push', '-q', '--all', 'origin')
        g('push', '-q', '--tags', 'origin')
        g('fetch', '-q', 'origin')
        install_hooks(remote)
        self.templates[shape] = (d, t[0])
        return self.templates[shape]


DEFAULT_SETTINGS = {
    'repository_owner': 'own',
    'repository_slug': 'slug',
    'repository_host': 'mock',
    'robot': ROBOT,
    'robot_email': 'nobody@nowhere.com',
    'build_key': BUILD_KEY,
    'required_leader_approvals': 0,
    'required_peer_approvals': 1,
    'need_author_approval': False,
    'always_create_integration_pull_requests': True,
    'always_create_integration_branches': True,
    'admins': [ADMIN],
    'project_leaders': [LEADER],
}


class FakeJiraIssue:
    """Stands for bert_e.lib.jira.JiraIssue (as upstream's tests do)."""
    table = {}

    def __init__(self, account_url, issue_id, email, token):
        from types import SimpleNamespace as NS
        from jira.exceptions import JIRAError
        spec = FakeJiraIssue.table.get(issue_id)
        if spec is None:
            raise JIRAError(status_code=404, text='not found')
        self.key = issue_id
        self.fields = NS(
            issuetype=NS(name=spec.get('type', 'Bug')),
            fixVersions=[NS(name=v) for v in spec.get('versions', [])])


class World:
    def __init__(self, scratch, shape, mode='queue', settings=None,
                 cmd_line_options=(), password='pw'):
        import bert_e.git_host.mock as mock
        import bert_e.lib.jira as jira_api
        import bert_e.lib.retry as retry
        from bert_e.git_host.cache import BUILD_STATUS_CACHE
        from bert_e.lib.git import Repository as GitRepository
        self.mock = mock
        self.scratch = scratch
        self.shape = shape
        self.mode = mode
        self.password = password
        self.cmd_line_options = list(cmd_line_options)
        scratch.n += 1
        tpl, t0 = scratch.template(shape)
        self.dir = os.path.join(scratch.root, 'w%d' % scratch.n)
        shutil.copytree(tpl, self.dir, symlinks=True)
        self.remote = os.path.join(self.dir, 'remote.git')
        self.dev = os.path.join(self.dir, 'dev')
        self.home = os.path.join(self.dir, 'home')
        self.tmp = os.path.join(self.dir, 'tmp')
        os.makedirs(self.home)
        os.makedirs(self.tmp)
        git(self.dev, 'remote', 'set-url', 'origin', self.remote)
        with open(os.path.join(self.home, '.gitconfig'), 'w') as f:
            f.write('[advice]\n\tdetachedHead = false\n')
        self.clock = t0 + 100
        self.journal_pos = 0
        self.chain, self.hot = shape_branches(shape)
        self._activate_env()

        # --- host state (class-level globals of the in-tree mock) ---
        mock.PullRequest.items = []
        mock.Comment.items = []
        mock.Repository.items = []
        mock.Repository.revisions = {}
        for k in list(BUILD_STATUS_CACHE.keys()):
            del BUILD_STATUS_CACHE[k]
        retry.sleep = lambda n: None
        jira_api.JiraIssue = FakeJiraIssue
        FakeJiraIssue.table = {}
        gr = GitRepository(None)
        shutil.rmtree(gr.tmp_directory, ignore_errors=True)
        gr.tmp_directory = gr.cmd_directory = self.remote
        self.host_gitrepo = gr
        mock.Repository.repos = {('own', 'slug'): gr}
        self.clients = {u: mock.Client(u, 'pw-' + u, u + '@nowhere.com')
                        for u in USERS}
        self.hosts = {u: c.get_repository('slug', 'own')
                      for u, c in self.clients.items()}
        for h in self.hosts.values():
            h.get_git_url()

        # --- settings / Bert-E ---
        s = dict(DEFAULT_SETTINGS)
        if mode == 'skipqueue':
            s['skip_queue_when_not_needed'] = True
        s.update(settings or {})
        self.settings_dict = s
        self.settings_path = os.path.join(self.dir, 'settings.yml')
        from vf.stubs import settings_yaml
        with open(self.settings_path, 'w') as f:
            f.write(settings_yaml(**s))
        self.berte = None
        self.ci = {}             # sha -> last state reported under BUILD_KEY
        self.known_commits = []  # every sha ever seen at a ref tip
        self.prs = {}            # id -> dict(src, dst, author)
        self.host_journal = []
        self.jobs_run = 0
        self.manual_commits = {}  # sha -> description (harness made on w/)
        self.injector = None
        self.new_berte()
        self.note_commits()

    # ------------------------------------------------------------------
    def _activate_env(self):
        os.environ['HOME'] = self.home
        os.environ['TMPDIR'] = self.tmp
        tempfile.tempdir = self.tmp
        os.environ.pop('VF_ACTOR', None)
        os.environ['GIT_CONFIG_NOSYSTEM'] = '1'
        os.environ['GIT_TERMINAL_PROMPT'] = '0'

    def tick(self):
        self.clock += 1
        return logical_date(self.clock)

    def g(self, *a, actor='harness', check=True, cwd=None):
        dt = self.tick()
        return git(cwd or self.dev, *a, check=check,
                   env={'GIT_AUTHOR_DATE': dt, 'GIT_COMMITTER_DATE': dt,
                        'VF_ACTOR': actor, 'HOME': self.home})

    # ------------------------------------------------------------------
    def new_berte(self):
        """A fresh Bert-E process on the same HOME (mirror cache kept)."""
        from bert_e.bert_e import BertE
        from bert_e.settings import setup_settings
        self._activate_env()
        if self.berte is not None:
            # a fresh PROCESS: module-level state does not survive either
            import importlib
            from bert_e.git_host.cache import BUILD_STATUS_CACHE
            import bert_e.workflow.gitwaterflow.commands as commands
            for k in list(BUILD_STATUS_CACHE.keys()):
                del BUILD_STATUS_CACHE[k]
            importlib.reload(commands)
        settings = setup_settings(self.settings_path)
        settings['robot_password'] = self.password
        settings['jira_token'] = 'jira-token'
        settings['cmd_line_options'] = list(self.cmd_line_options)
        settings['backtrace'] = True
        settings['disable_queues'] = (self.mode == 'noqueue')
        old = self.berte
        self.berte = BertE(settings)
        if old is not None and old.git_repo.tmp_directory:
            shutil.rmtree(old.git_repo.tmp_directory, ignore_errors=True)
        return self.berte

    # ------------------------------------------------------------------
    # observation
    def refs(self):
        return refs(self.remote)

    def heads(self):
        return {k[len('refs/heads/'):]: v for k, v in self.refs().items()
                if k.startswith('refs/heads/')}

    def tags(self):
        return {k[len('refs/tags/'):]: v for k, v in self.refs().items()
                if k.startswith('refs/tags/')}

    def read_journal(self):
        """New ref transactions since the last call:
        list of transactions, each a list of (actor, old, new, ref)."""
        path = os.path.join(self.remote, 'vf-journal')
        if not os.path.exists(path):
            return []
        with open(path) as f:
            f.seek(self.journal_pos)
            data = f.read()
            self.journal_pos = f.tell()
        txs, cur = [], []
        for line in data.splitlines():
            if line == '--':
                if cur:
                    txs.append(cur)
                cur = []
                continue
            actor, old, new, ref = line.split(' ', 3)
            if ref == 'HEAD':
                continue
            cur.append((actor, old, new, ref))
        if cur:
            txs.append(cur)
        return txs

    def is_ancestor(self, a, b):
        return is_ancestor(self.remote, a, b)

    def note_commits(self):
        seen = set(self.known_commits)
        for sha in sorted(self.refs().values()):
            if sha not in seen:
                seen.add(sha)
                self.known_commits.append(sha)

    def chain_now(self, heads=None):
        """Existing chain members, computed from branch NAMES only."""
        heads = heads if heads is not None else self.heads()
        devs, stabs = [], {}
        for name in heads:
            kind, _, ver = name.partition('/')
            parts = ver.split('.')
            if not all(p.isdigit() for p in parts):
                continue
            if kind == 'development' and len(parts) in (1, 2):
                v = (int(parts[0]), int(parts[1]) if len(parts) == 2
                     else None)
                devs.append((dev_sort_key(v), v, name))
            elif kind == 'stabilization' and len(parts) == 3:
                stabs.setdefault((int(parts[0]), int(parts[1])), []).append(
                    (int(parts[2]), name))
        chain = []
        devs.sort()
        have = {v for _, v, _ in devs}
        for _, v, name in devs:
            for _, sname in sorted(stabs.get(v, [])):
                chain.append((sname, name))  # stab must be inside its dev
        prev = None
        for _, v, name in devs:
            if prev:
                chain.append((prev, name))
            prev = name
        return chain  # list of (inner, outer) pairs that must be included

    def chain_broken(self, heads=None):
        heads = heads if heads is not None else self.heads()
        bad = []
        for a, b in self.chain_now(heads):
            if not self.is_ancestor(heads[a], heads[b]):
                bad.append((a, b))
        return bad

    # ------------------------------------------------------------------
    # host helpers
    def pr_ctl(self, pr_id, user=ROBOT):
        return self.hosts[user].get_pull_request(pr_id)

    def all_prs(self):
        """[(id, author, src, dst, state)] oldest first (host view)."""
        out = []
        for item in reversed(self.mock.PullRequest.items):
            # `state` is what the host shows (the mock turns OPEN into
            # MERGED lazily when asked)
            try:
                state = item.state
            except Exception:
                state = item._state
            out.append((item.id, item.author['username'],
                        item.source['branch']['name'],
                        item.destination['branch']['name'], state))
        return out

    def comments(self, pr_id):
        return [(c.id, c.user['username'], c.content['raw'])
                for c in self.mock.Comment.items
                if c.pull_request_id == pr_id]

    def host_state(self):
        return {
            'prs': [(i, a, s, d, st) for i, a, s, d, st in self.all_prs()],
            'comments': {i: [(a, t) for _, a, t in self.comments(i)]
                         for i, _, _, _, _ in self.all_prs()},
        }

    # ------------------------------------------------------------------
    # developer / third-party actions
    def fetch(self):
        self.g('fetch', '-q', '--prune', 'origin')

    def write(self, name, content):
        p = os.path.join(self.dev, name)
        os.makedirs(os.path.dirname(p), exist_ok=True)
        with open(p, 'w') as f:
            f.write(content)
        self.g('add', name)

    def commit(self, msg, author=None):
        args = ['commit', '-q', '--allow-empty', '-m', msg]
        if author:
            args = ['-c', 'user.name=' + author] + args + \
                ['--author', '%s <%s@nowhere.com>' % (author, author)]
        self.g(*args)
        return self.g('rev-parse', 'HEAD').strip()

    def push(self, *refspecs, force=False, actor='harness', check=True):
        args = ['push', '-q'] + (['-f'] if force else []) + ['origin'] + \
            list(refspecs)
        return self.g(*args, actor=actor, check=check)

    def open_pr(self, src, dst, author=AUTHOR, base_back=0, files=None,
                touch_shared=None, title='title', base_branch=None,
                same_as=None):
        """Create branch src from dst (optionally from an older commit of
        dst, or from another - older - destination branch), commit, push,
        open the PR.  With same_as=<pr id> the new source branch is a second
        name for the commits of that PR's source (a backport / forward-port
        of the same commits to another destination).
        Returns the PR id or None."""
        heads = self.heads()
        if dst not in heads or src in heads:
            return None
        self.fetch()
        if same_as is not None:
            other = self.prs.get(same_as)
            if not other or other['src'] not in heads:
                return None
            self.push('%s:refs/heads/%s' % (heads[other['src']], src))
            pr = self.hosts[author].create_pull_request(
                title=title, name='name', src_branch=src, dst_branch=dst,
                close_source_branch=True, description='')
            self.prs[pr.id] = {'src': src, 'dst': dst, 'author': author,
                               'shared_commits': True}
            other['shared_commits'] = True
            self.note_commits()
            return pr.id
        base = 'origin/' + dst
        if base_branch and base_branch in heads:
            base = 'origin/' + base_branch
        if base_back:
            rc, out, _ = self.g('rev-parse', '-q', '--verify',
                                '%s~%d' % (base, base_back), check=False)
            if rc == 0:
                base = out.strip()
        self.g('checkout', '-q', '-B', src, base)
        n = len(self.prs) + 1
        for name, content in (files or {'pr%d_0.txt' % n: src + '\n'}).items():
            self.write(name, content)
        if touch_shared is not None:
            self.edit_shared(touch_shared, 'pr%d' % n)
        self.commit('work on %s' % src, author=author)
        self.push(src)
        pr = self.hosts[author].create_pull_request(
            title=title, name='name', src_branch=src, dst_branch=dst,
            close_source_branch=True, description='')
        self.prs[pr.id] = {'src': src, 'dst': dst, 'author': author}
        self.g('checkout', '-q', '--detach')
        self.note_commits()
        return pr.id

    def open_foreign_pr(self, src, dst, author=AUTHOR, create_src=True,
                        create_dst=False):
        """A PR whose names Bert-E may not handle; branches are created
        from the first chain branch when asked."""
        heads = self.heads()
        self.fetch()
        base = 'origin/' + (self.chain[0] if self.chain else self.hot[0])
        if create_dst and dst not in heads:
            self.g('checkout', '-q', '-B', 'vf-tmp', base)
            self.push('vf-tmp:refs/heads/' + dst, actor='third')
        if create_src and src not in heads:
            self.g('checkout', '-q', '-B', 'vf-tmp', base)
            self.write('foreign_%d.txt' % (len(self.prs) + 1), src + '\n')
            self.commit('foreign work')
            self.push('vf-tmp:refs/heads/' + src)
        self.g('checkout', '-q', '--detach')
        pr = self.hosts[author].create_pull_request(
            title='foreign', name='name', src_branch=src, dst_branch=dst,
            close_source_branch=True, description='')
        self.prs[pr.id] = {'src': src, 'dst': dst, 'author': author,
                           'foreign': True}
        self.note_commits()
        return pr.id

    def edit_shared(self, line_no, text):
        p = os.path.join(self.dev, 'shared.txt')
        if not os.path.exists(p):
            return
        with open(p) as f:
            lines = f.read().splitlines()
        if not lines:
            return
        lines[line_no % len(lines)] = 'line %d %s' % (line_no, text)
        with open(p, 'w') as f:
            f.write('\n'.join(lines) + '\n')
        self.g('add', 'shared.txt')

    def push_src(self, pr_id, kind, n=0):
        info = self.prs.get(pr_id)
        if not info or info['src'] not in self.heads():
            return False
        src, dst = info['src'], info['dst']
        self.fetch()
        self.g('checkout', '-q', '-B', src, 'origin/' + src)
        ok = True
        if kind == 'add':
            self.write('pr%d_more_%d.txt' % (pr_id, self.clock), 'more\n')
            self.commit('more work on %s' % src, author=info['author'])
            self.push(src)
        elif kind == 'amend':
            self.write('pr%d_amend.txt' % pr_id, 'amended %d\n' % self.clock)
            self.g('commit', '-q', '--amend', '-m', 'amended work')
            self.push(src, force=True)
        elif kind == 'rebase':
            if dst not in self.heads():
                ok = False
            else:
                rc, _, _ = self.g('rebase', '-q', 'origin/' + dst,
                                  check=False)
                if rc != 0:
                    self.g('rebase', '--abort', check=False)
                    ok = False
                else:
                    self.push(src, force=True)
        elif kind == 'reset':
            rc, out, _ = self.g('rev-list', '--count',
                                'origin/%s..HEAD' % dst, check=False)
            if rc == 0 and out.strip().isdigit() and int(out) > 1:
                self.g('reset', '-q', '--hard', 'HEAD~1')
                self.push(src, force=True)
            else:
                ok = False
        elif kind == 'merge_dst':
            rc, _, _ = self.g('merge', '-q', '--no-edit', 'origin/' + dst,
                              check=False)
            if rc != 0:
                self.g('merge', '--abort', check=False)
                ok = False
            else:
                self.push(src)
        self.g('checkout', '-q', '--detach')
        self.note_commits()
        return ok

    def delete_branch(self, name, actor='harness'):
        if name in self.heads():
            self.push(':refs/heads/' + name, actor=actor, check=False)

    def manual_on_wbranch(self, wname, kind='commit', author=AUTHOR):
        """A developer commits on an integration branch (doc: conflict
        resolution procedure).  kind: commit | merge (merge commit made on
        the w/ branch by merging a side branch that changes a new file)."""
        if wname not in self.heads():
            return None
        self.fetch()
        self.g('checkout', '-q', '-B', 'vf-w', 'origin/' + wname)
        if kind == 'commit':
            self.write('manual_%d.txt' % self.clock, 'manual\n')
            sha = self.commit('manual commit on ' + wname, author=author)
        elif kind == 'merge_src':
            # documented conflict-resolution procedure: merge the source
            # branch into the integration branch by hand
            src = wname.split('/', 2)[2]
            if src not in self.heads():
                self.g('checkout', '-q', '--detach')
                return None
            rc, _, _ = self.g('-c', 'user.name=' + author, 'merge', '-q',
                              '--no-ff', '--no-edit', 'origin/' + src,
                              check=False)
            if rc != 0:
                self.g('merge', '--abort', check=False)
                self.g('checkout', '-q', '--detach')
                return None
            head = self.g('rev-parse', 'HEAD').strip()
            if head == self.g('rev-parse', 'origin/' + wname).strip():
                self.g('checkout', '-q', '--detach')
                return None   # already up to date: nothing was made
            sha = head
        else:
            self.g('checkout', '-q', '-B', 'vf-side', 'origin/' + wname + '~1'
                   if self._has_parent('origin/' + wname) else
                   'origin/' + wname)
            self.write('side_%d.txt' % self.clock, 'side\n')
            self.commit('side work', author=author)
            self.g('checkout', '-q', 'vf-w')
            self.g('-c', 'user.name=' + author, 'merge', '-q', '--no-ff',
                   '--no-edit', 'vf-side')
            sha = self.g('rev-parse', 'HEAD').strip()
        rc = self.push('vf-w:refs/heads/' + wname, check=False)[0]
        self.g('checkout', '-q', '--detach')
        self.note_commits()
        if rc != 0:
            return None
        self.manual_commits[sha] = {'on': wname, 'kind': kind}
        return sha

    def _has_parent(self, rev):
        rc, _, _ = self.g('rev-parse', '-q', '--verify', rev + '~1',
                          check=False)
        return rc == 0

    def move_destination(self, name, actor='third'):
        """Legal third-party move: a commit on `name`, merged forward into
        every later chain member, pushed atomically (keeps C01's premise)."""
        heads = self.heads()
        if name not in heads:
            return False
        self.fetch()
        order = self._forward_order(name, heads)
        self.g('checkout', '-q', '-B', 'vf-d0', 'origin/' + name)
        self.write('direct_%d.txt' % self.clock, 'direct\n')
        self.commit('direct commit on ' + name)
        specs = ['vf-d0:refs/heads/' + name]
        prev = 'vf-d0'
        for i, nxt in enumerate(order):
            b = 'vf-d%d' % (i + 1)
            self.g('checkout', '-q', '-B', b, 'origin/' + nxt)
            rc, _, _ = self.g('merge', '-q', '--no-edit', prev, check=False)
            if rc != 0:
                self.g('merge', '--abort', check=False)
                self.g('checkout', '-q', '--detach')
                return False
            specs.append('%s:refs/heads/%s' % (b, nxt))
            prev = b
        rc, _, _ = self.g('push', '-q', '--atomic', 'origin', *specs,
                          actor=actor, check=False)
        self.g('checkout', '-q', '--detach')
        self.note_commits()
        return rc == 0

    def _forward_order(self, name, heads):
        """Chain members after `name` (by names only)."""
        if name.startswith('hotfix/'):
            return []
        pairs = self.chain_now(heads)
        nxt = {}
        for a, b in pairs:
            nxt.setdefault(a, b)
        out, cur = [], name
        while cur in nxt:
            cur = nxt[cur]
            out.append(cur)
        return out

    # ------------------------------------------------------------------
    # reviews, comments, CI
    def approve(self, pr_id, user):
        self.pr_ctl(pr_id, user).approve()

    def unapprove(self, pr_id, user):
        self.pr_ctl(pr_id, user).dismiss(None)

    def request_changes(self, pr_id, user):
        self.pr_ctl(pr_id, user).request_changes()

    def comment(self, pr_id, user, text):
        return self.pr_ctl(pr_id, user).add_comment(text).id

    def delete_comment(self, comment_id):
        for c in list(self.mock.Comment.items):
            if c.id == comment_id:
                self.mock.Comment.items.remove(c)
                return True
        return False

    def decline(self, pr_id, user=AUTHOR):
        self.pr_ctl(pr_id, user).decline()

    def report(self, sha, state):
        """CI reports `state` for `sha` under the configured build key."""
        self.hosts[ROBOT].set_build_status(revision=sha, key=BUILD_KEY,
                                           state=state)
        self.ci[sha] = state

    def report_other_key(self, sha, state):
        self.hosts[ROBOT].set_build_status(revision=sha, key='other-key',
                                           state=state)

    # ------------------------------------------------------------------
    # jobs
    def make_pr_job(self, pr_id):
        from bert_e.job import PullRequestJob
        return PullRequestJob(
            bert_e=self.berte,
            pull_request=self.berte.project_repo.get_pull_request(pr_id))

    def make_commit_job(self, sha):
        from bert_e.job import CommitJob
        return CommitJob(bert_e=self.berte, commit=sha)

    def make_admin_job(self, kind, **kw):
        from bert_e.jobs.create_branch import CreateBranchJob
        from bert_e.jobs.delete_branch import DeleteBranchJob
        from bert_e.jobs.delete_queues import DeleteQueuesJob
        from bert_e.jobs.force_merge_queues import ForceMergeQueuesJob
        from bert_e.jobs.rebuild_queues import RebuildQueuesJob
        from bert_e.jobs.eval_pull_request import EvalPullRequestJob
        cls = {'create_branch': CreateBranchJob,
               'delete_branch': DeleteBranchJob,
               'delete_queues': DeleteQueuesJob,
               'force_merge_queues': ForceMergeQueuesJob,
               'rebuild_queues': RebuildQueuesJob,
               'eval_pr': EvalPullRequestJob}[kind]
        return cls(bert_e=self.berte, settings=dict(kw), user=ADMIN)

    def run_job(self, job):
        """put_job + process_task, as the server's worker does.
        Returns a JobResult."""
        self._activate_env()
        self.jobs_run += 1
        dt = logical_date(self.clock + 1)
        self.clock += 2
        os.environ['GIT_AUTHOR_DATE'] = dt
        os.environ['GIT_COMMITTER_DATE'] = dt
        heads0 = self.heads()
        tags0 = self.tags()
        host0 = self.host_state()
        self.read_journal()
        crashed = False
        err = None
        if self.injector:
            self.injector.active = True
        try:
            self.berte.put_job(job)
            self.berte.process_task()
        except Crash:
            crashed = True
        except Exception as e:   # worker would have died
            err = e
        finally:
            if self.injector:
                self.injector.active = False
            os.environ.pop('GIT_AUTHOR_DATE', None)
            os.environ.pop('GIT_COMMITTER_DATE', None)
        if crashed:
            # the process is gone: a new instance takes over
            self.new_berte()
        txs = self.read_journal()
        self.note_commits()
        pending = []
        if not crashed:
            pending = list(self.berte.task_queue.queue)
        return JobResult(job, getattr(job, 'status', ''),
                         getattr(job, 'details', ''), crashed, err, heads0,
                         self.heads(), tags0, self.tags(), host0,
                         self.host_state(), txs, pending)

    def drain_pending(self, limit=10):
        """Run jobs left in the task queue (e.g. by rebuild_queues)."""
        out = []
        while self.berte.task_queue.qsize() and limit:
            limit -= 1
            job = self.berte.task_queue.queue[0]
            # process_task pops it itself
            out.append(self._run_queued(job))
        return out

    def _run_queued(self, job):
        self._activate_env()
        self.jobs_run += 1
        dt = logical_date(self.clock + 1)
        self.clock += 2
        os.environ['GIT_AUTHOR_DATE'] = dt
        os.environ['GIT_COMMITTER_DATE'] = dt
        heads0, tags0, host0 = self.heads(), self.tags(), self.host_state()
        self.read_journal()
        crashed, err = False, None
        if self.injector:
            self.injector.active = True
        try:
            self.berte.process_task()
        except Crash:
            crashed = True
        except Exception as e:
            err = e
        finally:
            if self.injector:
                self.injector.active = False
            os.environ.pop('GIT_AUTHOR_DATE', None)
            os.environ.pop('GIT_COMMITTER_DATE', None)
        if crashed:
            self.new_berte()
        txs = self.read_journal()
        self.note_commits()
        return JobResult(job, getattr(job, 'status', ''),
                         getattr(job, 'details', ''), crashed, err, heads0,
                         self.heads(), tags0, self.tags(), host0,
                         self.host_state(), txs,
                         [] if crashed else list(self.berte.task_queue.queue))

    # ------------------------------------------------------------------
    # snapshots
    def snapshot(self):
        self.scratch.n += 1
        d = os.path.join(self.scratch.root, 'snap%d' % self.scratch.n)
        os.makedirs(d)
        for name in ('remote.git', 'dev', 'home'):
            shutil.copytree(os.path.join(self.dir, name),
                            os.path.join(d, name), symlinks=True)
        memo = {}
        for u in USERS:
            memo[id(self.clients[u])] = self.clients[u]
            memo[id(self.hosts[u])] = self.hosts[u]
        memo[id(self.host_gitrepo)] = self.host_gitrepo
        state = {
            'prs': copy.deepcopy(self.mock.PullRequest.items, memo),
            'comments': copy.deepcopy(self.mock.Comment.items, memo),
            'revisions': dict(self.mock.Repository.revisions),
            'ci': dict(self.ci), 'known': list(self.known_commits),
            'wprs': copy.deepcopy(self.prs), 'clock': self.clock,
            'journal_pos': self.journal_pos,
            'manual': dict(self.manual_commits),
            'jira': copy.deepcopy(FakeJiraIssue.table),
            'jobs_run': self.jobs_run,
        }
        return (d, state)

    def restore(self, snap):
        d, state = snap
        for name in ('remote.git', 'dev', 'home'):
            shutil.rmtree(os.path.join(self.dir, name), ignore_errors=True)
            shutil.copytree(os.path.join(d, name),
                            os.path.join(self.dir, name), symlinks=True)
        memo = {}
        for u in USERS:
            memo[id(self.clients[u])] = self.clients[u]
            memo[id(self.hosts[u])] = self.hosts[u]
        memo[id(self.host_gitrepo)] = self.host_gitrepo
        self.mock.PullRequest.items = copy.deepcopy(state['prs'], memo)
        self.mock.Comment.items = copy.deepcopy(state['comments'], memo)
        self.mock.Repository.revisions = dict(state['revisions'])
        self.ci = dict(state['ci'])
        self.known_commits = list(state['known'])
        self.prs = copy.deepcopy(state['wprs'])
        self.clock = state['clock']
        self.journal_pos = state['journal_pos']
        self.manual_commits = dict(state['manual'])
        FakeJiraIssue.table = copy.deepcopy(state['jira'])
        self.jobs_run = state['jobs_run']
        from bert_e.git_host.cache import BUILD_STATUS_CACHE
        for k in list(BUILD_STATUS_CACHE.keys()):
            del BUILD_STATUS_CACHE[k]
        self.new_berte()

    def drop_snapshot(self, snap):
        shutil.rmtree(snap[0], ignore_errors=True)

    def close(self):
        try:
            if self.injector:
                self.injector.uninstall()
            if self.berte and self.berte.git_repo.tmp_directory:
                shutil.rmtree(self.berte.git_repo.tmp_directory,
                              ignore_errors=True)
        finally:
            shutil.rmtree(self.dir, ignore_errors=True)


JobResult = namedtuple(
    'JobResult', 'job status details crashed error heads0 heads1 tags0 tags1 '
                 'host0 host1 txs pending')


def job_desc(job):
    n = type(job).__name__
    if n == 'PullRequestJob':
        return 'PR#%s' % job.pull_request.id
    if n == 'CommitJob':
        return 'commit:%s' % job.commit[:10]
    return n
