"""Plain git helpers used by the harness (never by the code under test)."""
import os
import subprocess

BASE_ENV = {
    'GIT_CONFIG_NOSYSTEM': '1',
    'GIT_TERMINAL_PROMPT': '0',
    'LC_ALL': 'C',
    'GIT_AUTHOR_NAME': 'dev', 'GIT_AUTHOR_EMAIL': 'dev@nowhere.com',
    'GIT_COMMITTER_NAME': 'dev', 'GIT_COMMITTER_EMAIL': 'dev@nowhere.com',
}


class GitError(Exception):
    pass


def logical_date(n):
    # 2020-01-01T00:00:00Z + n seconds
    return '%d +0000' % (1577836800 + n)


def git(cwd, *args, env=None, check=True, input=None):
    e = dict(os.environ)
    e.update(BASE_ENV)
    if env:
        e.update(env)
    p = subprocess.run(('git',) + tuple(args), cwd=cwd, env=e, input=input,
                       stdout=subprocess.PIPE, stderr=subprocess.PIPE,
                       universal_newlines=True)
    if check and p.returncode != 0:
        raise GitError('git %s -> %d\n%s\n%s' % (' '.join(args), p.returncode,
                                                  p.stdout, p.stderr))
    return p.stdout if check else (p.returncode, p.stdout, p.stderr)


def refs(gitdir, prefix='refs/'):
    """{refname: sha} of a repository."""
    out = git(gitdir, 'for-each-ref', '--format=%(objectname) %(refname)',
              prefix)
    res = {}
    for line in out.splitlines():
        sha, name = line.split(' ', 1)
        res[name] = sha
    return res


def is_ancestor(gitdir, a, b):
    rc, _, _ = git(gitdir, 'merge-base', '--is-ancestor', a, b, check=False)
    return rc == 0


def tree_of(gitdir, rev):
    return git(gitdir, 'rev-parse', rev + '^{tree}').strip()


HOOK_REFTX = """#!/bin/sh
if [ "$1" = committed ]; then
  while read old new ref; do
    echo "${VF_ACTOR:-berte} $old $new $ref" >> "$GIT_DIR/vf-journal"
  done
  echo "--" >> "$GIT_DIR/vf-journal"
fi
exit 0
"""

HOOK_UPDATE = """#!/bin/sh
if [ -f "$GIT_DIR/vf-reject" ] && grep -qxF "$1" "$GIT_DIR/vf-reject"; then
  echo "vf: rejected $1" >&2
  if [ -f "$GIT_DIR/vf-reject-once" ]; then
    grep -vxF "$1" "$GIT_DIR/vf-reject" > "$GIT_DIR/vf-reject.tmp"
    mv "$GIT_DIR/vf-reject.tmp" "$GIT_DIR/vf-reject"
  fi
  exit 1
fi
exit 0
"""


def install_hooks(gitdir):
    for name, body in (('reference-transaction', HOOK_REFTX),
                       ('update', HOOK_UPDATE)):
        path = os.path.join(gitdir, 'hooks', name)
        with open(path, 'w') as f:
            f.write(body)
        os.chmod(path, 0o755)
