"""Injection points of engine E1: the subprocess module as seen by
bert_e.lib.simplecmd, and the mutating calls of the in-tree mock host.

The injector never looks at how Bert-E structures its git layer: it only
recognises `git push` command lines and host mutations, counts them, and can
run a third-party action / raise a crash / substitute a failing command at a
chosen index.
"""
import re
import subprocess as real_subprocess

from vf.sim.world import Crash

PUSH_RE = re.compile(r'^\s*git\s+push\b')
HOST_MUTATIONS = (
    ('PullRequestController', 'add_comment'),
    ('PullRequestController', 'decline'),
    ('PullRequestController', 'set_bot_status'),
    ('Repository', 'create_pull_request'),
    ('Repository', 'set_build_status'),
)


class SubprocessProxy:
    """Stands for the `subprocess` module inside bert_e.lib.simplecmd."""
    def __init__(self, injector):
        self._inj = injector
        self.PIPE = real_subprocess.PIPE
        self.STDOUT = real_subprocess.STDOUT
        self.DEVNULL = real_subprocess.DEVNULL
        self.TimeoutExpired = real_subprocess.TimeoutExpired
        self.CalledProcessError = real_subprocess.CalledProcessError

    def Popen(self, command, **kw):
        return self._inj.popen(command, kw)


class Injector:
    def __init__(self, world):
        self.world = world
        self.active = False      # only inside a Bert-E job
        self.reset_plan()
        self._saved = []

    def reset_plan(self):
        self.ops = []            # ('push', cmdline) | ('host', name) | ('cmd', cmdline)
        self.cmds = []           # every git command line of the current plan
        self.pushes = []
        self.ncmd = 0
        self.before_push = {}    # push index -> callable()
        self.before_cmd = {}     # command index -> callable()
        self.crash_before = None  # index into remote-mutating ops
        self.crash_after = None
        self.crashed = False
        self.fail_cmd = None     # (cmd index, builder(command, kw) -> Popen)
        self.mut_ops = 0

    # -- install / uninstall ---------------------------------------
    def install(self):
        import bert_e.lib.simplecmd as sc
        mock = self.world.mock
        self._saved.append((sc, 'subprocess', sc.subprocess))
        sc.subprocess = SubprocessProxy(self)
        for cls_name, meth in HOST_MUTATIONS:
            cls = getattr(mock, cls_name)
            orig = getattr(cls, meth)
            self._saved.append((cls, meth, orig))
            setattr(cls, meth, self._wrap_host(cls_name + '.' + meth, orig))

    def uninstall(self):
        for obj, name, val in reversed(self._saved):
            setattr(obj, name, val)
        self._saved = []

    # -- hooks --------------------------------------------------------
    def _mutating_boundary(self, kind, desc):
        """Called before a remote-mutating op; returns its index."""
        idx = self.mut_ops
        self.mut_ops += 1
        self.ops.append((kind, desc))
        if self.crashed or self.crash_before == idx:
            self.crashed = True
            raise Crash('crash before op %d (%s)' % (idx, desc))
        return idx

    def _after_boundary(self, idx, desc):
        if self.crash_after == idx:
            self.crashed = True
            raise Crash('crash after op %d (%s)' % (idx, desc))

    def _wrap_host(self, name, orig):
        inj = self

        def wrapper(self_, *a, **kw):
            if not inj.active:
                return orig(self_, *a, **kw)
            idx = inj._mutating_boundary('host', name)
            res = orig(self_, *a, **kw)
            inj._after_boundary(idx, name)
            return res
        wrapper.__name__ = getattr(orig, '__name__', 'wrapper')
        return wrapper

    def popen(self, command, kw):
        cwd = kw.get('cwd') or ''
        internal = (not self.active) or cwd.startswith(self.world.remote)
        if internal:
            return real_subprocess.Popen(command, **kw)
        if self.crashed:
            raise Crash('process is dead')
        cidx = self.ncmd
        self.ncmd += 1
        cmdline = command if isinstance(command, str) else ' '.join(command)
        hook = self.before_cmd.get(cidx)
        if hook:
            self.active = False
            try:
                hook()
            finally:
                self.active = True
        is_push = bool(PUSH_RE.match(cmdline))
        if not is_push:
            self.ops_all_append(cmdline)
            if self.fail_cmd and self.fail_cmd[0] == cidx:
                return self.fail_cmd[1](command, kw)
            return real_subprocess.Popen(command, **kw)
        pidx = len(self.pushes)
        self.pushes.append(cmdline)
        hook = self.before_push.get(pidx)
        if hook:
            self.active = False
            try:
                hook()
            finally:
                self.active = True
        idx = self._mutating_boundary('push', cmdline)
        self.ops_all_append(cmdline)
        if self.fail_cmd and self.fail_cmd[0] == cidx:
            return self.fail_cmd[1](command, kw)
        if self.crash_after == idx:
            # run the push to completion, then die
            p = real_subprocess.Popen(command, **kw)
            p.communicate()
            self.crashed = True
            raise Crash('crash after op %d (%s)' % (idx, cmdline))
        return real_subprocess.Popen(command, **kw)

    def ops_all_append(self, cmdline):
        self.cmds.append(cmdline)
