"""History interpreter (plain Python, replayable) + Hypothesis step drawing."""
import re

from hypothesis import strategies as st

from vf.sim import world as W
from vf.sim.world import (World, Shape, AUTHOR, AUTHOR2, PEER1, PEER2, LEADER,
                          ADMIN, ROBOT)

STATES = ('SUCCESSFUL', 'FAILED', 'STOPPED', 'INPROGRESS', 'NOTSTARTED')
PREFIXES = ('bugfix', 'feature', 'improvement')
DEST_RE = re.compile(r'^(development|stabilization|hotfix)/')

COMMENTS = (
    '@robot approve', '@robot bypass_build_status', '@robot approve',
    '@robot bypass_peer_approval', '@robot create_pull_requests',
    '@robot wait', '/wait', '@robot approve', '/approve',
    '@robot bypass_build_status', '@robot bypass_peer_approval',
    '@robot bypass_author_approval bypass_peer_approval '
    'bypass_leader_approval', '/bypass_jira_check',
    '@robot bypass_incompatible_branch', '@robot unanimity',
    '@robot no_octopus', '@robot create_pull_requests',
    '@robot create_integration_branches', '@robot help', '@robot status',
    '@robot reset', '@robot force_reset', '/reset', '@robot build',
    '@robot frobnicate', 'hello world', 'thanks @robot',
    '@robot after_pull_request=1', '@robot after_pull_request=2',
    '@robot after_pull_request=99', '@robot: approve, unanimity',
    # malformed options (answered with "incorrect command syntax")
    '@robot after_pull_request', '/after_pull_request',
)


def is_dest(name):
    return bool(DEST_RE.match(name))


class History:
    """Executes JSON steps on a World and feeds monitors."""

    def __init__(self, scratch, params, monitors, inject=False):
        self.params = params
        shape = Shape(tuple(tuple(d) for d in params['devs']),
                      tuple(tuple(s) for s in params['stabs']),
                      params['hotfix'], bool(params.get('rename')))
        self.world = World(scratch, shape, params['mode'],
                           settings=params.get('settings'),
                           cmd_line_options=params.get('options', ()))
        self.monitors = monitors
        self.injector = None
        if inject:
            from vf.sim.inject import Injector
            self.injector = self.world.injector = Injector(self.world)
            self.injector.install()
        self.steps = []
        self.violations = []   # (message, signature)
        self.stats = {}
        self.flags = set()
        self.mon_state = {}   # monitor state that follows snapshots
        self.job_statuses = []
        for m in monitors:
            m.start(self)

    def count(self, k, n=1):
        self.stats[k] = self.stats.get(k, 0) + n

    def close(self):
        self.world.close()

    def case(self):
        return {'params': self.params, 'steps': list(self.steps)}

    # -- selectors -----------------------------------------------------
    def resolve(self, sel):
        w = self.world
        if 'ref' in sel:
            return w.heads().get(sel['ref'])
        if 'known' in sel and w.known_commits:
            return w.known_commits[sel['known'] % len(w.known_commits)]
        return None

    # -- step interpreter ----------------------------------------------
    def apply(self, step):
        """Apply one step; returns JobResult(s) list (possibly empty)."""
        self.steps.append(step)
        w = self.world
        op = step['op']
        results = []
        if op == 'open_pr':
            w.open_pr(step['src'], step['dst'], step.get('author', AUTHOR),
                      base_back=step.get('base_back', 0),
                      touch_shared=step.get('shared'),
                      base_branch=step.get('base_branch'),
                      same_as=step.get('same_as'),
                      title=step.get('title', 'title'))
        elif op == 'push_src':
            w.push_src(step['pr'], step['kind'])
        elif op == 'approve':
            if step['pr'] in w.prs:
                w.approve(step['pr'], step['user'])
        elif op == 'unapprove':
            if step['pr'] in w.prs:
                w.unapprove(step['pr'], step['user'])
        elif op == 'request_changes':
            if step['pr'] in w.prs:
                w.request_changes(step['pr'], step['user'])
        elif op == 'comment':
            if step['pr'] in w.prs:
                w.comment(step['pr'], step['user'], step['text'])
                from vf.sim.monitors import COMMAND_TEXTS
                key = COMMAND_TEXTS.get(step['text'].strip())
                if key:
                    d = self.mon_state.setdefault('c10_posted', {})
                    d[(step['pr'], key)] = d.get((step['pr'], key), 0) + 1
        elif op == 'delete_comment':
            mine = [c for c in w.comments(step['pr']) if c[1] != ROBOT]
            if step.get('holds'):
                # the hold comments, whoever posted them (the robot account
                # included: a freeze script may reuse its credentials)
                import re as _re
                mine = [c for c in w.comments(step['pr'])
                        if c[2].strip() in ('@robot wait', '/wait') or
                        _re.match(r'^@robot( after_pull_request=\S+)+$',
                                  c[2].strip())]
            if mine:
                w.delete_comment(mine[step['nth'] % len(mine)][0])
        elif op == 'report':
            sha = self.resolve(step['sel'])
            if sha:
                w.report(sha, step['state'])
        elif op == 'report_pr':
            info = w.prs.get(step['pr'])
            if info:
                heads = w.heads()
                for name, sha in sorted(heads.items()):
                    if name == info['src'] or (
                            name.startswith('w/') and
                            name.split('/', 2)[2] == info['src']):
                        w.report(sha, step['state'])
        elif op == 'report_queue':
            heads = w.heads()
            qs = sorted(n for n in heads if n.startswith('q/'))
            for i, name in enumerate(qs):
                stt = step['states'][i % len(step['states'])]
                w.report(heads[name], stt)
        elif op == 'decline':
            if step['pr'] in w.prs:
                w.decline(step['pr'], step.get('user', AUTHOR))
        elif op == 'manual':
            info = w.prs.get(step['pr'])
            if info:
                ws = sorted(n for n in w.heads() if n.startswith('w/') and
                            n.split('/', 2)[2] == info['src'])
                if step.get('wname') in ws:
                    w.manual_on_wbranch(step['wname'],
                                        step.get('kind', 'commit'),
                                        info['author'])
                elif ws:
                    w.manual_on_wbranch(ws[step['w'] % len(ws)],
                                        step.get('kind', 'commit'),
                                        info['author'])
        elif op == 'move_dst':
            w.move_destination(step['branch'])
        elif op == 'delete_w':
            # a developer deletes an integration branch by hand (the conflict
            # message asks for it in one case)
            info = w.prs.get(step['pr'])
            if info:
                ws = sorted(n for n in w.heads() if n.startswith('w/') and
                            n.split('/', 2)[2] == info['src'])
                if ws:
                    w.delete_branch(ws[step['w'] % len(ws)])
        elif op == 'fresh':
            w.new_berte()
        elif op == 'pr_event':
            ids = [p[0] for p in w.all_prs()]
            if step['pr'] in ids:
                results.append(self.run(w.make_pr_job(step['pr']), step))
        elif op == 'commit_event':
            sha = self.resolve(step['sel'])
            if sha:
                results.append(self.run(w.make_commit_job(sha), step))
        elif op == 'admin':
            job = w.make_admin_job(step['kind'], **step.get('args', {}))
            results.append(self.run(job, step))
        elif op == 'placed':
            results.extend(self.apply_placed(step))
        elif op == 'rejected':
            results.extend(self.apply_rejected(step))
        elif op == 'cmdfail':
            results.extend(self.apply_cmdfail(step))
        elif op == 'fault':
            from vf.sim.faults import apply_fault
            apply_fault(self, step)
        elif op == 'remember':
            if step['pr'] in w.prs:
                from vf.sim.c06sim import remember_report
                remember_report(self, step['pr'])
        elif op == 'twin':
            self.apply_twin(step)
        elif op == 'open_foreign':
            w.open_foreign_pr(step['src'], step['dst'],
                              step.get('author', AUTHOR),
                              create_src=step.get('create_src', True),
                              create_dst=step.get('create_dst', False))
        elif op == 'probe_path':
            self.apply_probe_path(step)
        elif op == 'compare_probe':
            results.extend(self.apply_compare_probe(step))
        elif op == 'third':
            # a plain third-party action outside any job (e.g. the release
            # manager tags a commit)
            self.third_party(step['action'])
        elif op == 'repeat':
            results.extend(self.apply_repeat(step))
        elif op == 'drain':
            # run whatever jobs an admin job left in the task queue
            n = 0
            while w.berte.task_queue.qsize() and n < 6:
                n += 1
                job = w.berte.task_queue.queue[0]
                for m in self.monitors:
                    m.before_job(self, job, step)
                res = w._run_queued(job)
                self.after(res, step)
                results.append(res)
        else:
            raise ValueError('unknown op %r' % op)
        return results

    # -- jobs from recipes, dry runs, third-party placements ---------------
    def job_from(self, js):
        w = self.world
        if js['op'] == 'pr_event':
            if js['pr'] not in [p[0] for p in w.all_prs()]:
                return None
            return w.make_pr_job(js['pr'])
        if js['op'] == 'commit_event':
            sha = self.resolve(js['sel'])
            return w.make_commit_job(sha) if sha else None
        if js['op'] == 'admin':
            return w.make_admin_job(js['kind'], **js.get('args', {}))
        return None

    def dry_run(self, js):
        """Run the job of step js on a snapshot, count its pushes and
        remote-mutating operations, restore.  Not logged, not monitored."""
        w = self.world
        snap = w.snapshot()
        try:
            job = self.job_from(js)
            if job is None:
                return None
            self.injector.reset_plan()
            res = w.run_job(job)
            info = {'pushes': list(self.injector.pushes),
                    'ops': list(self.injector.ops),
                    'ncmd': self.injector.ncmd,
                    'cmds': list(getattr(self.injector, 'cmds', [])),
                    'status': res.status,
                    'moved': [r for tx in res.txs for a, _, _, r in tx
                              if a == 'berte'],
                    'heads1': res.heads1}
            return info
        finally:
            self.injector.reset_plan()
            w.restore(snap)
            w.drop_snapshot(snap)

    def third_party(self, action, pr=None):
        """One concurrent third-party action (actor 'third')."""
        w = self.world
        kind = action['kind']
        if kind == 'new_branch':
            base = (w.chain or w.hot)[0]
            if base not in w.heads():
                return
            w.fetch()
            w.g('checkout', '-q', '-B', 'vf-third', 'origin/' + base)
            w.write('third_%d.txt' % w.clock, 'third\n')
            w.commit('third party work')
            w.push('vf-third:refs/heads/' + action['name'], actor='third',
                   check=False)
            w.g('checkout', '-q', '--detach')
        elif kind == 'new_tag':
            base = (w.chain or w.hot)[0]
            if base in w.heads():
                w.g('push', '-q', 'origin', '%s:refs/tags/%s' % (
                    w.heads()[base], action['name']), actor='third',
                    check=False)
        elif kind == 'new_w':
            # the author of ANOTHER pull request publishes a hand-made
            # integration branch for it (the documented way out of a
            # conflict), or adds a commit to the existing one
            info = w.prs.get(action.get('pr'))
            chain = [b for b in w.chain if b in w.heads()]
            if not info or not chain:
                return
            name = 'w/%s/%s' % (chain[-1].split('/')[1], info['src'])
            w.fetch()
            base = name if name in w.heads() else chain[-1]
            w.g('checkout', '-q', '-B', 'vf-third', 'origin/' + base)
            w.write('third_w_%d.txt' % w.clock, 'by hand\n')
            w.commit('hand-made integration work', author=info['author'])
            w.push('vf-third:refs/heads/' + name, actor='third',
                   check=False)
            w.g('checkout', '-q', '--detach')
        elif kind in ('push_src', 'force_src'):
            info = w.prs.get(action.get('pr'))
            if not info or info['src'] not in w.heads():
                return
            w.fetch()
            w.g('checkout', '-q', '-B', 'vf-third', 'origin/' + info['src'])
            w.write('third_%d.txt' % w.clock, 'third\n')
            if kind == 'push_src':
                w.commit('third party commit on source')
                w.push('vf-third:refs/heads/' + info['src'], actor='third',
                       check=False)
            else:
                w.g('commit', '-q', '--amend', '-m', 'rewritten by third')
                w.push('vf-third:refs/heads/' + info['src'], force=True,
                       actor='third', check=False)
            w.g('checkout', '-q', '--detach')
        w.note_commits()

    def apply_rejected(self, step):
        """Run step['job'] on a snapshot while the remote refuses the
        single ref step['ref'] (branch protection); monitors judge it; the
        world is restored afterwards."""
        from vf.sim.faults import set_reject, clear_reject

        def go():
            job = self.job_from(step['job'])
            if job is None:
                return []
            self.injector.reset_plan()
            set_reject(self.world, step['ref'], False)
            try:
                return [self.run(job, step)]
            finally:
                clear_reject(self.world)
        return self.on_snapshot(go) or []

    def apply_cmdfail(self, step):
        """Run step['job'] on a snapshot while its git command number
        step['cmd'] fails (exit 1, as a transient error of that one
        command); monitors judge it; the world is restored afterwards."""
        import subprocess as sp

        def failing(command, kw):
            return sp.Popen('echo "fatal: injected failure" >&2; exit 1',
                            **kw)

        def go():
            job = self.job_from(step['job'])
            if job is None:
                return []
            self.injector.reset_plan()
            self.injector.fail_cmd = (step['cmd'], failing)
            try:
                return [self.run(job, step)]
            finally:
                self.injector.reset_plan()
        return self.on_snapshot(go) or []

    def apply_placed(self, step):
        """Run step['job'] on a snapshot with a third-party action placed
        immediately before its push number step['push']; monitors judge it;
        the world is restored afterwards."""
        import copy
        w = self.world
        snap = w.snapshot()
        saved = copy.deepcopy(self.mon_state)
        try:
            job = self.job_from(step['job'])
            if job is None:
                return []
            inj = self.injector
            inj.reset_plan()
            if 'cmd' in step:
                inj.before_cmd[step['cmd']] = \
                    lambda: self.third_party(step['action'])
            else:
                inj.before_push[step['push']] = \
                    lambda: self.third_party(step['action'])
            self.placement = step
            res = self.run(job, step)
            return [res]
        finally:
            self.placement = None
            self.injector.reset_plan()
            self.mon_state = saved
            w.restore(snap)
            w.drop_snapshot(snap)

    @staticmethod
    def outcome(res):
        return {'status': res.status,
                'heads': sorted(res.heads1.items()),
                'tags': sorted(res.tags1.items()),
                'host': res.host1,
                'error': type(res.error).__name__ if res.error else None}

    def on_snapshot(self, fn):
        """Run fn() on a snapshot of the world, then restore it."""
        import copy
        w = self.world
        snap = w.snapshot()
        saved = copy.deepcopy(self.mon_state)
        try:
            return fn()
        finally:
            self.mon_state = saved
            w.restore(snap)
            w.drop_snapshot(snap)

    def apply_twin(self, step):
        """Run job recipe step['a'] and step['b'] from the same snapshot
        (b optionally on a fresh Bert-E instance) and compare outcomes."""
        def run_one(js, fresh=False, pre=()):
            def go():
                if fresh:
                    self.world.new_berte()
                for p in pre:
                    self.apply_quiet(p)
                job = self.job_from(js)
                if job is None:
                    return None
                return self.outcome(self.run(job, step))
            return self.on_snapshot(go)
        a = run_one(step['a'], pre=step.get('pre_a', ()))
        b = run_one(step['b'], fresh=step.get('fresh_b', False),
                    pre=step.get('pre_b', ()))
        self.count('twin_' + step.get('tag', 'x'))
        if a is None or b is None:
            return
        ignore = step.get('ignore', ())
        diffs = [k for k in a if k not in ignore and a[k] != b[k]]
        if diffs:
            detail = '; '.join('%s: %r vs %r' % (
                k, _short(a[k], b[k])[0], _short(a[k], b[k])[1])
                for k in diffs)
            self.violations.append((
                '%s: twin runs differ (%s vs %s): %s' % (
                    step.get('tag', 'twin'), step['a'], step['b'], detail),
                {'monitor': step.get('tag', 'twin'),
                 'clause': 'twin_differs_' + '_'.join(sorted(diffs))}))

    def ref_shape(self):
        """Branch names with the tree id of their tip (date independent)."""
        from vf.sim.gitutil import tree_of
        w = self.world
        return sorted((n, tree_of(w.remote, sha))
                      for n, sha in w.heads().items())

    def progress(self, pr):
        """merged / queued / pending, from refs only."""
        w = self.world
        info = w.prs.get(pr)
        if not info:
            return None
        heads = w.heads()
        if info['src'] in heads and info['dst'] in heads and \
                w.is_ancestor(heads[info['src']], heads[info['dst']]):
            return 'merged'
        if any(n.startswith('q/w/%d/' % pr) for n in heads):
            return 'queued'
        return 'pending'

    def apply_probe_path(self, step):
        """Run step['steps'] on a snapshot; remember status of the last job
        and the final ref shape under step['slot']; restore."""
        def go():
            last = None
            for st_ in step['steps']:
                n = len(self.steps)
                res = self.apply(st_)
                del self.steps[n:]
                if res:
                    last = res[-1]
            return {'progress': self.progress(step.get('pr')),
                    'shape': self.ref_shape()}
        nv = len(self.violations)
        out = self.on_snapshot(go)
        del self.violations[nv:]     # the probe path is not judged
        self.mon_state.setdefault('probes', {})[step['slot']] = out

    def apply_compare_probe(self, step):
        job = self.job_from(step['final'])
        if job is None:
            return []
        res = self.run(job, step)
        probe = self.mon_state.get('probes', {}).get(step['slot'])
        if probe is None:
            return [res]
        self.count('probe_compared')
        mine = {'progress': self.progress(step.get('pr')),
                'shape': self.ref_shape()}
        diffs = [k for k in mine if mine[k] != probe[k]]
        if diffs:
            self.violations.append((
                '%s: after the hold was lifted the evaluation differs from '
                'the world that never had it: %s' % (
                    step.get('tag', 'C12'),
                    '; '.join('%s: %r vs %r' % ((k,) + _short(mine[k],
                                                               probe[k]))
                              for k in diffs)),
                {'monitor': step.get('tag', 'C12'),
                 'clause': 'after_lift_differs_' + '_'.join(sorted(diffs))}))
        return [res]

    def apply_quiet(self, step):
        """Apply a non-job step without logging it (used inside twins)."""
        n = len(self.steps)
        self.apply(step)
        del self.steps[n:]

    def apply_repeat(self, step):
        """C10: deliver the same event `times` (3) times on the long-lived
        instance - the evaluation and "at most two more" of the statement -
        then once more: that further evaluation may change nothing."""
        out = []
        for i in range(step.get('times', 3) + 1):
            job = self.job_from(step['job'])
            if job is None:
                return out
            res = self.run(job, dict(step, rep=i))
            out.append(res)
        if len(out) >= 4:
            a, b = self.outcome(out[-2]), self.outcome(out[-1])
            # compare state only (status of a no-op may legitimately repeat)
            keys = ('heads', 'tags', 'host')
            diffs = [k for k in keys if a[k] != b[k]]
            self.count('repeat_checked')
            if diffs:
                self.violations.append((
                    'C10: after three evaluations of %s a further one still '
                    'changed %s: %r'
                    % (step['job'], diffs,
                       _short(a[diffs[0]], b[diffs[0]])),
                    {'monitor': 'C10', 'clause': 'no_convergence',
                     'what': diffs[0]}))
        return out

    def run(self, job, step):
        for m in self.monitors:
            m.before_job(self, job, step)
        res = self.world.run_job(job)
        self.after(res, step)
        return res

    def after(self, res, step):
        self.job_statuses.append(res.status)
        self.count('job_' + (res.status or 'none'))
        if res.error is not None:
            self.count('worker_exception_' + type(res.error).__name__)
        for m in self.monitors:
            for msg, sig in m.after_job(self, res, step) or ():
                self.violations.append((msg, sig))


def _short(a, b):
    """Return only the differing parts of two outcomes (for messages)."""
    if isinstance(a, list) and isinstance(b, list):
        sa, sb = [x for x in a if x not in b], [x for x in b if x not in a]
        return sa[:4], sb[:4]
    if isinstance(a, dict) and isinstance(b, dict):
        ka = {k: v for k, v in a.items() if b.get(k) != v}
        kb = {k: v for k, v in b.items() if a.get(k) != v}
        return _trim(ka), _trim(kb)
    return a, b


def _trim(x, n=300):
    s = repr(x)
    return s if len(s) <= n else s[:n] + '...'


class Monitor:
    name = 'monitor'

    def start(self, hist):
        pass

    def before_job(self, hist, job, step):
        pass

    def after_job(self, hist, res, step):
        return ()


def replay_case(scratch, case, monitors, inject=False):
    h = History(scratch, case['params'], monitors, inject=inject)
    try:
        for step in case['steps']:
            h.apply(step)
        return h.violations, h
    finally:
        h.close()


# ----------------------------------------------------------------------
# Hypothesis drawing

LINES = ((4, 3), (5, 1), (10, 0), (10, None))


@st.composite
def st_params(draw, modes=('queue', 'skipqueue', 'noqueue'), stab_bias=False,
              hotfix=True, extra_settings=None, options=None):
    n = draw(st.integers(1, 4))
    idx = draw(st.lists(st.integers(0, 3), min_size=n, max_size=n,
                        unique=True))
    devs = [LINES[i] for i in sorted(idx)]
    stabs = []
    budget = 4 - len(devs)
    for d in devs:
        if d[1] is not None and budget > 0:
            if draw(st.integers(0, 9)) < (6 if stab_bias else 3):
                stabs.append(d)
                budget -= 1
    hf = 'none'
    if hotfix:
        k = draw(st.integers(0, 9))
        if k == 0:
            hf = 'orphan'
        elif k == 1 and any(d[1] is not None for d in devs):
            hf = 'online'
        elif k == 2 and any(d[1] is not None for d in devs):
            hf = 'both'
    mode = draw(st.sampled_from(modes))
    settings = {}
    if draw(st.integers(0, 3)) == 0:
        settings['required_peer_approvals'] = 2
    if draw(st.integers(0, 4)) == 0:
        settings['need_author_approval'] = True
    if draw(st.integers(0, 4)) == 0:
        settings['always_create_integration_pull_requests'] = False
    if draw(st.integers(0, 6)) == 0:
        settings['always_create_integration_branches'] = False
    if extra_settings:
        settings.update(extra_settings)
    opts = list(options or [])
    if draw(st.integers(0, 3)) == 0:
        opts.append('no_octopus')
    # on the newest development branch the shared file may have been renamed
    # (merges that must follow a rename are where octopus and consecutive
    # merges part ways)
    rename = len(devs) >= 2 and draw(st.integers(0, 3)) == 0
    return {'devs': [list(d) for d in devs], 'stabs': [list(s) for s in stabs],
            'hotfix': hf, 'mode': mode, 'settings': settings, 'options': opts,
            'rename': rename}


DEFAULT_WEIGHTS = {
    'open_pr': 8, 'advance': 20, 'merge_queue': 14, 'push_src': 5,
    'approve': 2, 'unapprove': 1, 'request_changes': 1, 'comment': 4,
    'delete_comment': 2, 'report': 5, 'report_pr': 4, 'report_queue': 3,
    'pr_event': 8, 'commit_event': 6, 'admin': 3, 'decline': 1, 'manual': 1,
    'move_dst': 1, 'fresh': 1,
}


class NoChoice(Exception):
    """The world offers nothing to pick from (e.g. every branch is gone)."""


def draw_steps(data, hist, weights=None, max_prs=4):
    """Draw one step or one macro (list of plain steps)."""
    try:
        return _draw_steps(data, hist, weights, max_prs)
    except NoChoice:
        return [{'op': 'fresh'}]


def _draw_steps(data, hist, weights=None, max_prs=4):
    w = hist.world
    wt = dict(DEFAULT_WEIGHTS)
    wt.update(weights or {})
    user_prs = sorted(w.prs)
    heads = w.heads()
    has_q = any(n.startswith('q/') for n in heads)
    if not user_prs:
        wt['advance'] = 0
    if not has_q:
        wt['merge_queue'] = 0
    tot = sum(v for v in wt.values())
    macro = None
    if wt.get('advance') or wt.get('merge_queue'):
        x = data.draw(st.integers(0, tot - 1), label='macro')
        if x < wt.get('advance', 0):
            macro = 'advance'
        elif x < wt.get('advance', 0) + wt.get('merge_queue', 0):
            macro = 'merge_queue'

    def pick(seq, label):
        if not seq:
            raise NoChoice(label)
        return seq[data.draw(st.integers(0, len(seq) - 1), label=label)]

    if macro == 'advance':
        open_ids = [p[0] for p in w.all_prs() if p[0] in w.prs and
                    p[4] == 'OPEN'] or user_prs
        pr = pick(open_ids, 'apr')
        info = w.prs[pr]
        steps = []
        reviewers = [u for u in (PEER1, PEER2) if u != info['author']]
        need = int(w.settings_dict.get('required_peer_approvals', 1))
        for u in reviewers[:need]:
            steps.append({'op': 'approve', 'pr': pr, 'user': u})
        if w.settings_dict.get('need_author_approval'):
            steps.append({'op': 'approve', 'pr': pr, 'user': info['author']})
        k = data.draw(st.integers(0, 5), label='adv_kind')
        if k == 0:
            steps.append({'op': 'pr_event', 'pr': pr})
        steps.append({'op': 'report_pr', 'pr': pr,
                      'state': pick(('SUCCESSFUL',) * 5 + STATES[1:],
                                    'adv_state')})
        steps.append({'op': 'pr_event', 'pr': pr})
        return steps
    if macro == 'merge_queue':
        qs = sorted(n for n in heads if n.startswith('q/'))
        allgreen = data.draw(st.integers(0, 2), label='allgreen') > 0
        if allgreen:
            states = ['SUCCESSFUL']
        else:
            states = [pick(('SUCCESSFUL',) * 3 + STATES, 'qs')
                      for _ in range(min(len(qs), 12))]
        return [{'op': 'report_queue', 'states': states},
                {'op': 'commit_event', 'sel': {'ref': pick(qs, 'qref')}}]
    wt['advance'] = 0
    wt['merge_queue'] = 0
    return [draw_step(data, hist, wt, max_prs)]


def draw_step(data, hist, weights=None, max_prs=4):
    """Draw one step that is meaningful in the current world state."""
    w = hist.world
    wt = dict(DEFAULT_WEIGHTS)
    wt.update(weights or {})
    wt['advance'] = 0
    wt['merge_queue'] = 0
    user_prs = sorted(w.prs)
    heads = w.heads()
    dests = sorted(n for n in heads if is_dest(n))
    if not user_prs:
        for k in list(wt):
            if k not in ('open_pr', 'admin', 'move_dst', 'commit_event',
                         'fresh'):
                wt[k] = 0
        wt['open_pr'] = 50
    if len(user_prs) >= max_prs or not dests:
        wt['open_pr'] = 0
    ops = [k for k, v in sorted(wt.items()) if v > 0]
    total = sum(wt[k] for k in ops)
    x = data.draw(st.integers(0, total - 1), label='op')
    for op in ops:
        if x < wt[op]:
            break
        x -= wt[op]

    def pick(seq, label):
        if not seq:
            raise NoChoice(label)
        return seq[data.draw(st.integers(0, len(seq) - 1), label=label)]

    if op == 'open_pr':
        dst = pick(dests, 'dst')
        n = len(w.prs) + 1
        src = '%s/TEST-%d-f%d' % (pick(PREFIXES, 'prefix'), n, n)
        step = {'op': op, 'src': src, 'dst': dst,
                'author': pick((AUTHOR, AUTHOR, AUTHOR2, ADMIN), 'author'),
                'base_back': pick((0, 0, 0, 1), 'base_back')}
        if data.draw(st.integers(0, 7 if not hist.params.get('rename')
                                 else 1), label='shared') == 0:
            step['shared'] = data.draw(st.integers(0, 19), label='line')
        k = data.draw(st.integers(0, 9), label='origin')
        chain_ = [n_ for n_ in w.chain if n_ in heads]
        if k == 0 and dst in chain_ and chain_.index(dst) > 0:
            # work started on an older branch, targeted at a newer one
            step['base_branch'] = chain_[data.draw(st.integers(
                0, chain_.index(dst) - 1), label='older')]
        elif k == 1 and user_prs:
            # the same commits proposed to another destination (backport)
            step['same_as'] = pick(user_prs, 'same_as')
        return step
    if op == 'push_src':
        return {'op': op, 'pr': pick(user_prs, 'pr'),
                'kind': pick(('add', 'add', 'amend', 'rebase', 'reset',
                              'merge_dst'), 'kind')}
    if op in ('approve', 'unapprove', 'request_changes'):
        pr = pick(user_prs, 'pr')
        return {'op': op, 'pr': pr,
                'user': pick((PEER1, PEER2, LEADER, w.prs[pr]['author'],
                              ADMIN), 'user')}
    if op == 'comment':
        pr = pick(user_prs, 'pr')
        return {'op': op, 'pr': pr,
                'user': pick((w.prs[pr]['author'], ADMIN, ADMIN, PEER1),
                             'user'),
                'text': pick(COMMENTS, 'text')}
    if op == 'delete_comment':
        return {'op': op, 'pr': pick(user_prs, 'pr'),
                'nth': data.draw(st.integers(0, 5), label='nth')}
    if op == 'report':
        names = sorted(heads)
        if data.draw(st.integers(0, 3), label='stale') == 0:
            sel = {'known': data.draw(st.integers(0, 200), label='known')}
        else:
            sel = {'ref': pick(names, 'ref')}
        return {'op': op, 'sel': sel, 'state': pick(STATES, 'state')}
    if op == 'report_pr':
        return {'op': op, 'pr': pick(user_prs, 'pr'),
                'state': pick(('SUCCESSFUL',) * 4 + STATES, 'state')}
    if op == 'report_queue':
        n = max(1, len([h for h in heads if h.startswith('q/')]))
        allgreen = data.draw(st.integers(0, 2), label='allgreen') == 0
        if allgreen:
            states = ['SUCCESSFUL']
        else:
            states = [pick(('SUCCESSFUL',) * 3 + STATES, 'qs')
                      for _ in range(min(n, 12))]
        return {'op': op, 'states': states}
    if op == 'pr_event':
        ids = [p[0] for p in w.all_prs()]
        # mostly parent PRs, sometimes children
        parents = [i for i in ids if i in w.prs]
        if parents and data.draw(st.integers(0, 4), label='parent') > 0:
            return {'op': op, 'pr': pick(parents, 'pr')}
        return {'op': op, 'pr': pick(ids, 'pr')}
    if op == 'commit_event':
        names = sorted(n for n in heads if not is_dest(n)) or sorted(heads)
        k = data.draw(st.integers(0, 9), label='cek')
        if k == 0:
            sel = {'known': data.draw(st.integers(0, 200), label='known')}
        elif k < 5 and any(n.startswith('q/') for n in names):
            sel = {'ref': pick([n for n in names if n.startswith('q/')],
                               'qref')}
        else:
            sel = {'ref': pick(names, 'ref')}
        return {'op': op, 'sel': sel}
    if op == 'admin':
        kind = pick(ADMIN_KINDS, 'akind')
        args = {}
        if kind == 'create_branch':
            args['branch'] = pick(CREATE_CANDIDATES, 'cbranch')
            k = data.draw(st.integers(0, 5), label='from')
            if k == 0 and dests:
                args['branch_from'] = pick(dests, 'bfrom')
            elif k == 1 and w.known_commits:
                args['branch_from'] = w.known_commits[
                    data.draw(st.integers(0, 200), label='bk') %
                    len(w.known_commits)]
        elif kind == 'delete_branch':
            args['branch'] = pick(dests + ['development/9.9'], 'dbranch')
        elif kind == 'eval_pr':
            args['pr_id'] = pick(user_prs or [1], 'pr')
        return {'op': op, 'kind': kind, 'args': args}
    if op == 'decline':
        return {'op': op, 'pr': pick(user_prs, 'pr')}
    if op == 'manual':
        return {'op': op, 'pr': pick(user_prs, 'pr'),
                'w': data.draw(st.integers(0, 3), label='w'),
                'kind': pick(('commit', 'commit', 'merge'), 'mkind')}
    if op == 'move_dst':
        return {'op': op, 'branch': pick(dests or ['development/4.3'], 'mb')}
    return {'op': 'fresh'}


ADMIN_KINDS = ('rebuild_queues', 'delete_queues', 'force_merge_queues',
               'create_branch', 'create_branch', 'delete_branch',
               'delete_branch', 'eval_pr')

CREATE_CANDIDATES = (
    'development/4.2', 'development/4.4', 'development/5.0',
    'development/5.2', 'development/9.5', 'development/10.1',
    'development/11.0', 'development/5', 'development/11',
    'stabilization/4.3.4', 'stabilization/5.1.4', 'stabilization/5.1.5',
    'stabilization/10.0.1', 'stabilization/10.0.0', 'hotfix/4.2.17',
    'hotfix/5.1.3', 'hotfix/10.0.0', 'development/4.3', 'development/10.0',
    'feature/foo', 'release/5.1',
)
