"""C06, E1 part: the build gate on real repositories when integration tips
change between build report and evaluation."""
from hypothesis import strategies as st

from vf.cli import run_shards
from vf.sim import monitors as M
from vf.sim.driver import replay_case, is_dest, STATES
from vf.sim.explore import explore
from vf.sim.monitors import walk_txs, H, bypass_build_active
from vf.sim.world import Scratch, AUTHOR, PEER1, PEER2, ADMIN, Z40


class C06Gate(M.Monitor):
    name = 'C06'

    def before_job(self, hist, job, step):
        w = hist.world
        self.stale = False
        if type(job).__name__ == 'PullRequestJob':
            pid = job.pull_request.id
            info = w.prs.get(pid)
            if info:
                last = hist.mon_state.get('c06_reported', {}).get(pid)
                heads = w.heads()
                now = sorted((n, s) for n, s in heads.items()
                             if n == info['src'] or n == info['dst'] or (
                                 n.startswith('w/') and
                                 n.split('/', 2)[2] == info['src']))
                self.stale = last is not None and last != now

    def after_job(self, hist, res, step):
        w = hist.world
        if type(res.job).__name__ != 'PullRequestJob':
            return
        pid = res.job.pull_request.id
        info = w.prs.get(pid)
        if not info:
            return
        src = info['src']
        # integration tips as Bert-E left them (last value before deletion)
        tips = {}
        for n, s in res.heads0.items():
            if n == src or (n.startswith('w/') and
                            n.split('/', 2)[2] == src):
                tips[n] = s
        for tx in res.txs:
            for a, old, new, ref in tx:
                n = ref[len(H):] if ref.startswith(H) else None
                if n and new != Z40 and (n == src or (
                        n.startswith('w/') and n.split('/', 2)[2] == src)):
                    tips[n] = new
        states = {n: w.ci.get(s, 'NOTSTARTED') for n, s in tips.items()}
        bypass = bypass_build_active(hist, pid)
        out = []
        if res.status in ('Queued', 'SuccessMessage'):
            hist.count('c06_gate_passed')
            if self.stale:
                hist.count('c06_gate_passed_after_tip_change')
                hist.flags.add('c06_nontrivial')
            if bypass:
                hist.count('c06_gate_bypassed')
            else:
                bad = {n: s for n, s in states.items() if s != 'SUCCESSFUL'}
                if bad:
                    out.append((
                        'C06: PR #%d passed the build gate (%s) although '
                        'integration commits are not green: %s' %
                        (pid, res.status, bad),
                        {'monitor': 'C06', 'clause': 'gate_passed_not_green',
                         'via': res.status}))
        elif res.status == 'BuildFailed':
            hist.count('c06_build_failed')
            if self.stale:
                hist.flags.add('c06_nontrivial')
            if not any(s in ('FAILED', 'STOPPED') for s in states.values()):
                out.append((
                    'C06: PR #%d was told the build failed but no integration '
                    'commit is FAILED/STOPPED: %s' % (pid, states),
                    {'monitor': 'C06', 'clause': 'build_failed_unfounded'}))
        elif res.status in ('BuildNotStarted', 'BuildInProgress'):
            hist.count('c06_waiting')
            if self.stale:
                hist.count('c06_waiting_after_tip_change')
                hist.flags.add('c06_nontrivial')
            if any(s in ('FAILED', 'STOPPED') for s in states.values()) \
                    and not bypass:
                out.append((
                    'C06: PR #%d waits silently (%s) although an integration '
                    'commit is FAILED/STOPPED: %s' % (pid, res.status,
                                                      states),
                    {'monitor': 'C06', 'clause': 'failed_but_silent'}))
            # silent: no new robot comment naming a build problem
        return out


def monitors():
    return [C06Gate()]


def remember_report(hist, pid):
    w = hist.world
    info = w.prs[pid]
    heads = w.heads()
    hist.mon_state.setdefault('c06_reported', {})[pid] = sorted(
        (n, s) for n, s in heads.items()
        if n == info['src'] or n == info['dst'] or (
            n.startswith('w/') and n.split('/', 2)[2] == info['src']))


def body(data, hist):
    w = hist.world

    def pick(seq, label):
        return seq[data.draw(st.integers(0, len(seq) - 1), label=label)]
    dests = sorted(n for n in w.heads() if is_dest(n))
    hist.apply({'op': 'open_pr', 'src': 'bugfix/TEST-1-b', 'dst': pick(
        dests, 'dst'), 'author': AUTHOR, 'base_back': pick((0, 1), 'bb')})
    if not w.prs:
        return
    P = max(w.prs)
    for u in (PEER1, PEER2, AUTHOR):
        hist.apply({'op': 'approve', 'pr': P, 'user': u})
    hist.apply({'op': 'pr_event', 'pr': P})
    rounds = data.draw(st.integers(1, 4), label='rounds')
    for _ in range(rounds):
        # CI reports (possibly mixed states)
        k = data.draw(st.integers(0, 3), label='rk')
        if k <= 1:
            hist.apply({'op': 'report_pr', 'pr': P, 'state': 'SUCCESSFUL'})
        elif k == 2:
            hist.apply({'op': 'report_pr', 'pr': P,
                        'state': pick(STATES, 'st')})
        else:
            hist.apply({'op': 'report_pr', 'pr': P, 'state': 'SUCCESSFUL'})
            ws = sorted(n for n in w.heads() if n.startswith('w/') and
                        n.split('/', 2)[2] == w.prs[P]['src'])
            if ws:
                hist.apply({'op': 'report', 'sel': {'ref': pick(ws, 'w')},
                            'state': pick(STATES[1:], 'st2')})
        hist.apply({'op': 'remember', 'pr': P})
        # something moves between report and evaluation
        m = data.draw(st.integers(0, 6), label='move')
        if m == 0:
            hist.apply({'op': 'push_src', 'pr': P, 'kind': pick(
                ('add', 'amend', 'rebase'), 'pk')})
        elif m == 1:
            hist.apply({'op': 'move_dst', 'branch': pick(dests, 'md')})
        elif m == 2:
            hist.apply({'op': 'manual', 'pr': P, 'w': data.draw(
                st.integers(0, 2), label='mw'), 'kind': 'commit'})
        elif m == 3:
            hist.apply({'op': 'comment', 'pr': P, 'user': ADMIN,
                        'text': '@robot bypass_build_status'})
        elif m == 4:
            # stale report: green on a superseded commit only
            hist.apply({'op': 'push_src', 'pr': P, 'kind': 'add'})
            hist.apply({'op': 'report', 'sel': {'known': data.draw(
                st.integers(0, 50), label='kn')}, 'state': 'SUCCESSFUL'})
        hist.apply({'op': 'pr_event', 'pr': P})
        if hist.violations:
            return
        if data.draw(st.integers(0, 2), label='again') == 0:
            hist.apply({'op': 'pr_event', 'pr': P})


def nontrivial(h):
    return 'c06_nontrivial' in h.flags


def classes(h):
    return ['sim_mode_' + h.world.mode] + ['sim_flag_' + f
                                           for f in sorted(h.flags)]


def shard(ctx, i, acc):
    n = 8 if ctx["tier"] == "quick" else 80
    explore(ctx, i, acc, monitors, n, nontrivial=nontrivial, classes=classes,
            body=body, params_kw={'hotfix': False})


def run(ctx):
    acc = run_shards(__name__, 'shard', ctx, list(range(ctx['nproc'])))
    acc.extra['sim_histories'] = acc.evaluations
    return acc


def replay(ctx, case, acc):
    sc = Scratch()
    try:
        viols, _ = replay_case(sc, case, monitors())
        for msg, sig in viols:
            acc.violation(msg, case, sig)
    finally:
        sc.cleanup()
