"""Fault enumeration for C02 (crash points, rejected refs) with recovery
and comparison against the uninterrupted run."""
import hashlib
import os
import re

from vf.sim.driver import is_dest
from vf.sim.gitutil import tree_of
from vf.sim.monitors import Monitor, walk_txs, H, job_desc
from vf.sim.world import Z40


def policy_state(seed, name, tree):
    """Deterministic CI verdict keyed by the tree id of the commit."""
    # keyed by content only: several branches (q/x.y and the newest
    # q/w/<pr>/x.y/...) share one commit, and a CI verdict belongs to the
    # commit, not to the branch name
    h = hashlib.sha1(('%s|%s' % (seed, tree)).encode()).digest()
    if seed == 0:
        return 'SUCCESSFUL'
    return 'FAILED' if h[0] < 40 else 'SUCCESSFUL'


def targets_of(world, heads, dst):
    """dst and every later chain member (names only); hotfix alone."""
    if dst.startswith('hotfix/'):
        return [dst]
    pairs = world.chain_now(heads)
    nxt = {}
    for a, b in pairs:
        nxt.setdefault(a, b)
    out, cur = [dst], dst
    while cur in nxt:
        cur = nxt[cur]
        out.append(cur)
    return out


class C02AllOrNone(Monitor):
    """(1) each PR's source tip is on all of its targets or on none, and
    (2) the C01 chain, after every ref transaction made by Bert-E."""
    name = 'C02'

    def check_state(self, hist, heads, where, res):
        w = hist.world
        out = []
        for pid, info in sorted(w.prs.items()):
            if info.get('foreign'):
                continue
            src, dst = info['src'], info['dst']
            if src not in heads or dst not in heads:
                continue
            # two pull requests proposing the same commits to different
            # destinations: "the changes of this pull request" are not its
            # own, the clause is not evaluated for them
            shared = bool(info.get('shared_commits'))
            if shared:
                hist.count('c02_shared_commits_not_judged')
                continue
            tg = [t for t in targets_of(w, heads, dst) if t in heads]
            on = [t for t in tg if w.is_ancestor(heads[src], heads[t])]
            if on and len(on) != len(tg):
                out.append((
                    'C02: %s: changes of PR #%d (%s) are on %s but not on %s'
                    % (where, pid, src, on,
                       [t for t in tg if t not in on]),
                    {'monitor': 'C02', 'clause': 'partial_landing',
                     'phase': hist.mon_state.get('c02_phase', 'plain')}))
                break
        bad = w.chain_broken(heads)
        if bad:
            out.append((
                'C02: %s: %s not contained in %s' % (where, bad[0][0],
                                                     bad[0][1]),
                {'monitor': 'C02', 'clause': 'chain_broken',
                 'phase': hist.mon_state.get('c02_phase', 'plain')}))
        return out

    def after_job(self, hist, res, step):
        w = hist.world
        if self.check_state(hist, res.heads0, 'pre', res):
            hist.count('c02_premise_false')
            return
        for k, tx, heads, _ in walk_txs(res):
            if not any(is_dest(ref[len(H):]) for a, _, _, ref in tx
                       if a == 'berte' and ref.startswith(H)):
                continue
            v = self.check_state(
                hist, heads, 'after ref transaction %d of job %s (%s%s)' %
                (k, job_desc(res.job), res.status,
                 ', crashed' if res.crashed else ''), res)
            if v:
                return v[:1]
        return self.check_state(hist, res.heads1, 'after job %s (%s%s)' % (
            job_desc(res.job), res.status,
            ', crashed' if res.crashed else ''), res)[:1]


def settle(hist, seed, step, max_rounds=7):
    """Drive CI (policy) and events until nothing changes."""
    w = hist.world
    rebuilt = 0
    for rnd in range(max_rounds):
        before = w.heads()
        for name, sha in sorted(before.items()):
            # a CI verdict, once given, does not flip: only commits that
            # have no report yet get one from the policy
            if not is_dest(name) and w.ci.get(sha) is None:
                w.report(sha, policy_state(seed, name,
                                           tree_of(w.remote, sha)))
        statuses = []
        for pid, author, src, dst, state in w.all_prs():
            if pid in w.prs and state == 'OPEN' and \
                    not w.prs[pid].get('foreign'):
                res = hist.run(w.make_pr_job(pid), step)
                statuses.append(res.status)
        heads = w.heads()
        for name, sha in sorted(heads.items()):
            if not is_dest(name) and w.ci.get(sha) is None:
                w.report(sha, policy_state(seed, name,
                                           tree_of(w.remote, sha)))
        qs = sorted(n for n in heads if n.startswith('q/') and
                    not n.startswith('q/w/'))
        if qs:
            res = hist.run(w.make_commit_job(heads[qs[0]]), step)
            statuses.append(res.status)
        if any(s in ('QueueOutOfOrder', 'IncoherentQueues')
               for s in statuses) and rebuilt < 2:
            # the documented reset
            rebuilt += 1
            hist.count('c02_documented_queue_reset')
            hist.run(w.make_admin_job('rebuild_queues'), step)
        n = 0
        while w.berte.task_queue.qsize() and n < 8:
            n += 1
            job = w.berte.task_queue.queue[0]
            for m in hist.monitors:
                m.before_job(hist, job, step)
            hist.after(w._run_queued(job), step)
        if w.heads() == before and rnd > 0:
            break
    return {n: tree_of(w.remote, s) for n, s in w.heads().items()
            if is_dest(n)}


def set_reject(world, ref, once):
    path = os.path.join(world.remote, 'vf-reject')
    with open(path, 'w') as f:
        f.write(ref + '\n')
    flag = os.path.join(world.remote, 'vf-reject-once')
    if once:
        open(flag, 'w').close()
    elif os.path.exists(flag):
        os.unlink(flag)


def clear_reject(world):
    for n in ('vf-reject', 'vf-reject-once'):
        p = os.path.join(world.remote, n)
        if os.path.exists(p):
            os.unlink(p)


def apply_fault(hist, step):
    """step: {'op':'fault','job':js,'fault':{...},'policy':seed}"""
    w = hist.world
    inj = hist.injector
    seed = step.get('policy', 0)
    fault = step['fault']

    def reference():
        hist.mon_state['c02_phase'] = 'reference'
        job = hist.job_from(step['job'])
        if job is None:
            return None
        inj.reset_plan()
        hist.run(job, step)
        return settle(hist, seed, step)

    nv = len(hist.violations)
    # the uninterrupted run is the same for every fault placed in this job
    # (fault steps leave the world as they found it): compute it once
    import json as _json
    key = (sum(1 for s_ in hist.steps[:-1] if s_['op'] not in (
        'fault', 'placed', 'rejected', 'cmdfail', 'twin', 'probe_path')),
        _json.dumps(step['job'], sort_keys=True), seed)
    cached = hist.mon_state.get('c02_ref')
    if cached and cached[0] == list(key):
        ref_trees = cached[1]
        hist.count('c02_reference_reused')
    else:
        ref_trees = hist.on_snapshot(reference)
        # on_snapshot restored mon_state: store after it
        hist.mon_state['c02_ref'] = [list(key), ref_trees]
    # violations of the uninterrupted run belong to C01/C03, not to C02
    del hist.violations[nv:]
    if ref_trees is None:
        return

    def faulty():
        hist.mon_state['c02_phase'] = 'fault:' + fault['kind']
        job = hist.job_from(step['job'])
        if job is None:
            return
        inj.reset_plan()
        if fault['kind'] == 'crash_before':
            inj.crash_before = fault['op']
        elif fault['kind'] == 'crash_after':
            inj.crash_after = fault['op']
        elif fault['kind'] == 'reject':
            set_reject(w, fault['ref'], fault.get('once', False))
        res = hist.run(job, step)
        clear_reject(w)
        inj.reset_plan()
        hist.count('c02_fault_' + fault['kind'])
        if res.crashed:
            hist.count('c02_crashed_runs')
        moved = any(is_dest(r[len(H):]) for tx in res.txs
                    for a, _, _, r in tx if a == 'berte' and
                    r.startswith(H))
        if hist.violations[nv:]:
            return
        # recovery: fresh instance, same event, documented reset, CI policy
        hist.mon_state['c02_phase'] = 'recovery'
        w.new_berte()
        job2 = hist.job_from(step['job'])
        statuses = []
        if job2 is not None:
            statuses.append(hist.run(job2, step).status)
        if any(s in ('QueueOutOfOrder', 'IncoherentQueues')
               for s in statuses):
            hist.count('c02_documented_queue_reset')
            hist.run(w.make_admin_job('rebuild_queues'), step)
        got = settle(hist, seed, step)
        if any(i_.get('shared_commits') for i_ in w.prs.values()):
            # two PRs proposing the same commits: which of them "lands"
            # depends on evaluation order (and two identical PRs on one
            # destination make the queue incoherent, a robustness issue
            # outside C02); content equality is not asserted here
            hist.count('c02_stat_shared_commit_world_not_compared')
            return
        hist.count('c02_recoveries_compared')
        if step['job'].get('op') == 'admin' and step['job'].get('kind') in (
                'create_branch', 'delete_branch'):
            # scoping decision (DESIGN.md C02): content equality after
            # recovery is asserted for PR / commit / queue jobs; an
            # interrupted create/delete-branch job that is not re-runnable
            # is a statistic.
            if got != ref_trees:
                hist.count('c02_stat_admin_job_not_rerunnable')
            return
        if got != ref_trees:
            diff = sorted(n for n in set(got) | set(ref_trees)
                          if got.get(n) != ref_trees.get(n))
            hist.violations.append((
                'C02: after fault %r in job %s and recovery, the content of '
                '%s differs from the uninterrupted run' %
                (fault, step['job'], diff),
                {'monitor': 'C02', 'clause': 'recovery_differs',
                 'fault': fault['kind']}))
    hist.on_snapshot(faulty)
    hist.mon_state['c02_phase'] = 'plain'
    clear_reject(w)


def refs_in_push(cmdline):
    """Explicit branch names of a `git push` command line."""
    names = re.findall(r"'([^']+)'", cmdline)
    out = []
    for n in names:
        n = n.split(':')[-1]
        if n.startswith('refs/heads/'):
            n = n[len('refs/heads/'):]
        if n and '*' not in n:
            out.append(n)
    return out
