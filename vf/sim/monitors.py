"""Property monitors over the observation points of World (engine E1).

Each monitor returns (message, signature) pairs; signature identifies the
root-cause class narrowly (used for known-findings matching and for
collect-then-shrink bucketing).
"""
from vf.sim.driver import Monitor, is_dest
from vf.sim.world import Z40, ROBOT, ADMIN, job_desc

H = 'refs/heads/'
T = 'refs/tags/'


def walk_txs(res, actor='berte'):
    """Yield (k, tx, heads_after_tx, tags_after_tx) replaying the journal of
    a job on top of its pre-job snapshot (all actors applied, but only
    transactions containing an entry by `actor` are yielded)."""
    heads = dict(res.heads0)
    tags = dict(res.tags0)
    for k, tx in enumerate(res.txs):
        for a, old, new, ref in tx:
            if ref.startswith(H):
                if new == Z40:
                    heads.pop(ref[len(H):], None)
                else:
                    heads[ref[len(H):]] = new
            elif ref.startswith(T):
                if new == Z40:
                    tags.pop(ref[len(T):], None)
                else:
                    tags[ref[len(T):]] = new
        if any(a == actor for a, _, _, _ in tx):
            yield k, tx, dict(heads), dict(tags)


class C01Chain(Monitor):
    """Forward-port inclusion after every Bert-E ref transaction."""
    name = 'C01'

    def after_job(self, hist, res, step):
        w = hist.world
        if w.chain_broken(res.heads0):
            hist.count('c01_premise_false')
            return
        out = []
        moved = False
        for k, tx, heads, _ in walk_txs(res):
            if not any(is_dest(ref[len(H):]) for a, _, _, ref in tx
                       if a == 'berte' and ref.startswith(H)):
                continue
            moved = True
            bad = w.chain_broken(heads)
            if bad:
                out.append((
                    'C01: after ref transaction %d of job %s (%s) the chain '
                    'is broken: %s not contained in %s' %
                    (k, job_desc(res.job), res.status, bad[0][0], bad[0][1]),
                    {'monitor': 'C01', 'clause': 'chain_after_tx',
                     'job': type(res.job).__name__}))
                break
        if not out:
            bad = w.chain_broken(res.heads1)
            if bad:
                out.append((
                    'C01: after job %s (%s) %s is not contained in %s' %
                    (job_desc(res.job), res.status, bad[0][0], bad[0][1]),
                    {'monitor': 'C01', 'clause': 'chain_after_job',
                     'job': type(res.job).__name__}))
        if moved:
            hist.count('c01_dest_moved_by_berte')
            hist.flags.add('dest_moved')
            # class bookkeeping
            for a, b in ((a, b) for tx in res.txs for a, _, _, b in tx):
                pass
        return out


def bypass_build_active(hist, pr_id):
    """Harness-side knowledge: is the build check of that PR bypassed by an
    admin comment, a per-author setting or the command line?"""
    w = hist.world
    info = w.prs.get(pr_id)
    if not info:
        return False
    if 'bypass_build_status' in w.cmd_line_options:
        return True
    opts = (w.settings_dict.get('pr_author_options') or {}).get(
        info['author'], [])
    if 'bypass_build_status' in opts:
        return True
    for _, user, text in w.comments(pr_id):
        if user == ADMIN and user != info['author'] and \
                'bypass_build_status' in text:
            return True
    return False


class C03Validated(Monitor):
    """Queue mode: every destination movement lands on a commit that the
    harness itself reported SUCCESSFUL (unless force merge / bypassed direct
    merge)."""
    name = 'C03'

    def after_job(self, hist, res, step):
        w = hist.world
        if w.mode == 'noqueue':
            return
        jn = type(res.job).__name__
        out = []
        for k, tx, heads, _ in walk_txs(res):
            for a, old, new, ref in tx:
                if a != 'berte' or not ref.startswith(H):
                    continue
                name = ref[len(H):]
                if not is_dest(name) or new == Z40 or old == Z40:
                    continue
                hist.count('c03_dest_movement')
                hist.flags.add('c03_movement')
                if jn == 'ForceMergeQueuesJob':
                    hist.count('c03_exempt_force_merge')
                    continue
                st = w.ci.get(new, 'NOTSTARTED')
                if st == 'SUCCESSFUL':
                    continue
                if jn == 'PullRequestJob' and res.status == 'SuccessMessage' \
                        and bypass_build_active(hist, res.job.pull_request.id):
                    hist.count('c03_exempt_bypassed_direct_merge')
                    continue
                out.append((
                    'C03: job %s (%s) moved %s to %s whose build state under '
                    'the configured key is %s' %
                    (job_desc(res.job), res.status, name, new[:10], st),
                    {'monitor': 'C03', 'clause': 'dest_on_unvalidated_commit',
                     'job': jn, 'via': res.status}))
        return out[:1]


class C08Passive(Monitor):
    """Journal rules: fast-forward only on destinations, nothing outside
    w/ q/ tmp/ and destinations, deletions only by delete-branch after the
    archive tag; reachability of former destination tips."""
    name = 'C08'

    def start(self, hist):
        hist.mon_state['ever_dest_tips'] = set(
            sha for n, sha in hist.world.heads().items() if is_dest(n))

    def after_job(self, hist, res, step):
        w = hist.world
        jn = type(res.job).__name__
        out = []
        for n, sha in res.heads0.items():
            if is_dest(n):
                hist.mon_state['ever_dest_tips'].add(sha)
        third_refs = {}
        for tx in res.txs:
            for a, old, new, ref in tx:
                if a == 'third':
                    third_refs.setdefault(
                        ref, 'created_by_third_party_during_job'
                        if old == Z40 else 'updated_by_third_party_during_job')
        if third_refs:
            hist.count('c08_jobs_with_third_party_action')
        for k, tx, heads, tags in walk_txs(res):
            for a, old, new, ref in tx:
                if a != 'berte':
                    continue
                if ref.startswith(T):
                    if jn == 'DeleteBranchJob' and old == Z40:
                        continue
                    out.append((
                        'C08: job %s touched tag %s' % (job_desc(res.job),
                                                        ref),
                        {'monitor': 'C08', 'clause': 'tag_touched',
                         'job': jn}))
                    continue
                if not ref.startswith(H):
                    continue
                name = ref[len(H):]
                if name.startswith(('w/', 'q/', 'tmp/')):
                    continue
                if is_dest(name):
                    if old == Z40:
                        if jn != 'CreateBranchJob':
                            out.append((
                                'C08: job %s created destination %s' %
                                (job_desc(res.job), name),
                                {'monitor': 'C08',
                                 'clause': 'dest_created_outside_create_job',
                                 'job': jn}))
                        continue
                    if new == Z40:
                        ok = jn == 'DeleteBranchJob' and \
                            res.job.settings.get('branch') == name and \
                            old in tags.values()
                        if not ok:
                            out.append((
                                'C08: job %s deleted destination %s without '
                                'an archive tag on %s' %
                                (job_desc(res.job), name, old[:10]),
                                {'monitor': 'C08',
                                 'clause': 'dest_deleted_without_tag',
                                 'job': jn}))
                        continue
                    if not w.is_ancestor(old, new):
                        out.append((
                            'C08: job %s moved %s %s..%s which is not a '
                            'fast-forward' % (job_desc(res.job), name,
                                              old[:10], new[:10]),
                            {'monitor': 'C08', 'clause': 'dest_not_ff',
                             'job': jn}))
                    continue
                # any other branch: Bert-E does not own it
                kind = 'deleted' if new == Z40 else (
                    'created' if old == Z40 else 'updated')
                out.append((
                    'C08: job %s %s foreign branch %s (%s -> %s)' %
                    (job_desc(res.job), kind, name, old[:10], new[:10]),
                    {'monitor': 'C08', 'clause': 'foreign_ref_' + kind,
                     'ref_origin': third_refs.get(ref, 'preexisting')}))
        for n, sha in res.heads1.items():
            if is_dest(n):
                hist.mon_state['ever_dest_tips'].add(sha)
        # reachability of every former destination tip
        tips = list(res.heads1.values()) + list(res.tags1.values())
        if tips and any(res.heads0.get(n) != res.heads1.get(n)
                        for n in set(res.heads0) | set(res.heads1)):
            for sha in sorted(hist.mon_state['ever_dest_tips']):
                if not any(w.is_ancestor(sha, t) for t in set(tips)):
                    out.append((
                        'C08: commit %s, once a destination tip, is no longer '
                        'reachable from any branch or tag after job %s' %
                        (sha[:10], job_desc(res.job)),
                        {'monitor': 'C08', 'clause': 'dest_tip_unreachable',
                         'job': jn}))
                    break
        return out[:2]


class C19OneToOne(Monitor):
    """At most one open integration PR per (parent, target); titles;
    w/ branches belong to an existing parent PR."""
    name = 'C19'

    def after_job(self, hist, res, step):
        w = hist.world
        out = []
        prs = w.all_prs()
        seen = {}
        by_src = {}
        for pid, author, src, dst, state in prs:
            if author != ROBOT:
                by_src.setdefault(src, []).append(pid)
        for item in w.mock.PullRequest.items:
            if item.author['username'] != ROBOT or item._state != 'OPEN':
                continue
            src = item.source['branch']['name']
            dst = item.destination['branch']['name']
            key = (src, dst)
            if key in seen:
                out.append((
                    'C19: two open integration pull requests #%d and #%d '
                    'from %s to %s after job %s' %
                    (seen[key], item.id, src, dst, job_desc(res.job)),
                    {'monitor': 'C19', 'clause': 'duplicate_child_pr'}))
            seen[key] = item.id
            if not src.startswith('w/'):
                out.append(('C19: robot PR #%d from non-integration branch %s'
                            % (item.id, src),
                            {'monitor': 'C19', 'clause': 'child_not_from_w'}))
                continue
            feature = src.split('/', 2)[2]
            parents = by_src.get(feature, [])
            if not parents:
                out.append(('C19: integration PR #%d has no parent PR with '
                            'source %s' % (item.id, feature),
                            {'monitor': 'C19', 'clause': 'orphan_child'}))
                continue
            ok_title = any(
                item.title.startswith('INTEGRATION [PR#%d > %s]' % (p, dst))
                for p in parents)
            if not ok_title:
                out.append(('C19: integration PR #%d title %r does not name '
                            'its parent/target (%s, %s)' %
                            (item.id, item.title, parents, dst),
                            {'monitor': 'C19', 'clause': 'child_title'}))
        hist.count('c19_open_children', len(seen))
        if seen:
            hist.flags.add('c19_children')
        return out[:2]


ALL = {'C01': C01Chain, 'C03': C03Validated, 'C08': C08Passive,
       'C19': C19OneToOne}


class WOwnership(Monitor):
    """C19/C15: integration branches deleted (and integration PRs declined)
    by a job belong to the PR the job is about, or to PRs merged by it."""
    name = 'wown'

    def __init__(self, tag='C19'):
        self.tag = tag

    def after_job(self, hist, res, step):
        w = hist.world
        jn = type(res.job).__name__
        out = []
        job_src = None
        if jn == 'PullRequestJob':
            pid = res.job.pull_request.id
            if pid in w.prs:
                job_src = w.prs[pid]['src']
            else:
                for i, a, s, d, st in w.all_prs():
                    if i == pid and s.startswith('w/'):
                        job_src = s.split('/', 2)[2]
        elif jn == 'CommitJob':
            # a commit event is an event on the PR of the branch(es) whose
            # tip it is (lowest PR id when several)
            cands = set()
            for n, sha in res.heads0.items():
                if sha.startswith(res.job.commit[:12]):
                    cands.add(n.split('/', 2)[2] if n.startswith('w/')
                              else n)
            prs_ = sorted(p for p, inf in w.prs.items()
                          if inf['src'] in cands)
            if prs_:
                job_src = w.prs[prs_[0]]['src']
        deleted = [ref[len(H):] for tx in res.txs for a, old, new, ref in tx
                   if a == 'berte' and new == Z40 and
                   ref.startswith(H + 'w/')]
        for name in deleted:
            feature = name.split('/', 2)[2]
            if feature == job_src:
                hist.count('w_deleted_own')
                continue
            # merged by this job?
            merged = False
            for pid, info in w.prs.items():
                if info['src'] == feature and info['dst'] in res.heads1 \
                        and feature in res.heads1 and w.is_ancestor(
                            res.heads1[feature], res.heads1[info['dst']]):
                    merged = True
            if not merged:
                # a queue merge (possibly partial: the source moved after
                # the PR was queued) removes the PR's q/w/ and w/ branches
                merged = any(
                    a == 'berte' and new == Z40 and
                    ref.startswith(H + 'q/w/') and
                    ref[len(H):].split('/', 4)[4] == feature
                    for tx in res.txs for a, old, new, ref in tx)
            if merged:
                hist.count('w_deleted_merged')
                continue
            out.append((
                '%s: job %s (%s) deleted integration branch %s of another '
                'pull request' % (self.tag, job_desc(res.job), res.status,
                                  name),
                {'monitor': self.tag, 'clause': 'foreign_w_deleted'}))
        # integration PRs declined by this job
        st0 = {p[0]: p for p in res.host0['prs']}
        for p in res.host1['prs']:
            old = st0.get(p[0])
            if old and old[4] == 'OPEN' and p[4] == 'DECLINED' and \
                    p[1] == ROBOT:
                feature = p[2].split('/', 2)[2] if p[2].startswith('w/') \
                    else None
                if feature != job_src:
                    out.append((
                        '%s: job %s (%s) declined integration PR #%d (%s) '
                        'of another pull request' %
                        (self.tag, job_desc(res.job), res.status, p[0], p[2]),
                        {'monitor': self.tag,
                         'clause': 'foreign_child_declined'}))
                else:
                    hist.count('child_declined_own')
        # declined parent => its w/ branches and open children are gone
        declined_parent = False
        if jn == 'PullRequestJob' and job_src:
            pid0 = res.job.pull_request.id
            st0_ = {p[0]: p[4] for p in res.host0['prs']}
            if pid0 in w.prs and st0_.get(pid0) == 'DECLINED':
                # the evaluation reached the decline handling: either it
                # cleaned up (PullRequestDeclined) or it found nothing to
                # clean (NothingToDo, when no `wait` hold stopped it earlier)
                declined_parent = res.status == 'PullRequestDeclined' or (
                    res.status == 'NothingToDo' and
                    hold_state(hist, pid0) is None)
        if declined_parent:
            left = [n for n in res.heads1 if n.startswith('w/') and
                    n.split('/', 2)[2] == job_src]
            open_children = [p for p in res.host1['prs'] if p[1] == ROBOT and
                             p[4] == 'OPEN' and p[2].startswith('w/') and
                             p[2].split('/', 2)[2] == job_src]
            hist.count('decline_cleanup_checked')
            hist.flags.add('decline_cleanup')
            if left or open_children:
                out.append((
                    '%s: after declining, integration branches %s / open '
                    'integration PRs %s remain' %
                    (self.tag, left, [p[0] for p in open_children]),
                    {'monitor': self.tag, 'clause': 'decline_incomplete'}))
        # merged parent => its w/ branches are gone
        if res.status in ('SuccessMessage', 'Merged'):
            for pid, info in w.prs.items():
                f = info['src']
                if info.get('shared_commits'):
                    # the same commits were proposed by two PRs: "merged"
                    # cannot be told from the refs for this one
                    continue
                if f in res.heads1 and info['dst'] in res.heads1 and \
                        w.is_ancestor(res.heads1[f],
                                      res.heads1[info['dst']]):
                    left = [n for n in res.heads1 if n.startswith('w/') and
                            n.split('/', 2)[2] == f]
                    was = [n for n in res.heads0 if n.startswith('w/') and
                           n.split('/', 2)[2] == f]
                    if was:
                        hist.count('merge_cleanup_checked')
                        hist.flags.add('merge_cleanup')
                    if left and was:
                        out.append((
                            '%s: pull request #%d was merged by job %s but '
                            'its integration branches %s remain' %
                            (self.tag, pid, job_desc(res.job), left),
                            {'monitor': self.tag,
                             'clause': 'merge_cleanup_incomplete'}))
        return out[:2]


COMMAND_TEXTS = {
    '@robot help': 'help', '@robot status': 'status', '@robot reset': 'reset',
    '/reset': 'reset', '@robot force_reset': 'force_reset',
    '@robot build': 'build', '/help': 'help', '/status': 'status',
    '/force_reset': 'force_reset',
}


class C10NoSpam(Monitor):
    """No identical robot message twice in a row; a command comment runs at
    most once (executions counted by wrapping the registered handlers)."""
    name = 'C10'
    _wrapped = False
    executions = []   # (pr_id, command key)

    @classmethod
    def wrap_handlers(cls):
        from bert_e.reactor import Reactor, Command
        from bert_e.workflow import gitwaterflow  # noqa: registers commands
        for key, cmd in list(Reactor.get_commands().items()):
            if getattr(cmd.handler, '_vf_wrapped', False):
                continue    # (a fresh "process" re-registers the handlers)

            def make(key, handler):
                def wrapper(job, *args):
                    C10NoSpam.executions.append(
                        (job.pull_request.id, key))
                    return handler(job, *args)
                wrapper.__doc__ = handler.__doc__
                wrapper.__name__ = getattr(handler, '__name__', key)
                wrapper._vf_wrapped = True
                return wrapper
            Reactor.__callbacks__[key] = Command(
                make(key, cmd.handler), cmd.help, cmd.privileged,
                cmd.authored)
        cls._wrapped = True

    def start(self, hist):
        self.wrap_handlers()
        C10NoSpam.executions = []
        hist.mon_state['c10_exec'] = {}

    def before_job(self, hist, job, step):
        self.wrap_handlers()
        C10NoSpam.executions = []

    def after_job(self, hist, res, step):
        w = hist.world
        out = []
        counts = hist.mon_state['c10_exec']
        for pid, key in C10NoSpam.executions:
            counts[(pid, key)] = counts.get((pid, key), 0) + 1
            hist.count('command_executed')
            hist.flags.add('c10_command')
        C10NoSpam.executions = []
        for (pid, key), n in sorted(counts.items()):
            posted = sum(1 for _, user, text in w.comments(pid)
                         if user != ROBOT and
                         COMMAND_TEXTS.get(text.strip()) == key)
            # comments may have been deleted since: count what was ever
            # posted (harness log) instead
            posted = max(posted, hist.mon_state.get('c10_posted', {}).get(
                (pid, key), 0))
            if n > posted:
                out.append((
                    'C10: command %r executed %d times on PR #%d but only %d '
                    'such comment(s) were ever posted' % (key, n, pid,
                                                          posted),
                    {'monitor': 'C10', 'clause': 'command_executed_again',
                     'command': key}))
                break
        # judged when the message is posted (no comment is deleted during a
        # job): comments deleted later by users must not make two older
        # robot messages "adjacent"
        for pid in [p[0] for p in res.host1['prs']]:
            cs = w.comments(pid)
            n0 = len(res.host0['comments'].get(pid, []))
            for k in range(max(n0, 1), len(cs)):
                (i1, u1, t1), (i2, u2, t2) = cs[k - 1], cs[k]
                if u1 == ROBOT and u2 == ROBOT and t1 == t2:
                    out.append((
                        'C10: the same message was posted twice in a row on '
                        'PR #%d after job %s: %r' %
                        (pid, job_desc(res.job), t1[:80]),
                        {'monitor': 'C10', 'clause': 'same_message_twice',
                         'title': t1.strip().splitlines()[0][:40]}))
                    break
        return out[:2]


class C15Reset(Monitor):
    """reset / force_reset against the harness' own record of manual work."""
    name = 'C15'

    def start(self, hist):
        C10NoSpam.wrap_handlers()

    def _w_of(self, heads, src):
        return sorted(n for n in heads if n.startswith('w/') and
                      n.split('/', 2)[2] == src)

    def _dst_of(self, heads, wname):
        ver = wname.split('/')[1]
        for cand in ('development/' + ver, 'stabilization/' + ver):
            if cand in heads:
                return cand
        return None

    def before_job(self, hist, job, step):
        C10NoSpam.wrap_handlers()
        C10NoSpam.executions = []
        self.pre = None
        if type(job).__name__ != 'PullRequestJob':
            return
        w = hist.world
        pid = job.pull_request.id
        if pid not in w.prs:
            return
        src = w.prs[pid]['src']
        heads = w.heads()
        ws = self._w_of(heads, src)
        lossy, pristine = [], True
        for wn in ws:
            dst = self._dst_of(heads, wn)
            if not dst:
                pristine = False
                continue
            out = w.g('log', '--format=%H %an', '%s..%s' %
                      (heads[dst], heads[wn]), cwd=w.remote)
            # shape of the integration branch: with no robot commit on it,
            # it is a plain fast-forward of the source branch (destination
            # not ahead of the source's base) - see known finding K1
            ff = not any(line.split(' ', 1)[1] == ROBOT
                         for line in out.splitlines())
            for sha, info in sorted(w.manual_commits.items()):
                if info['on'] == wn and \
                        w.is_ancestor(sha, heads[wn]) and \
                        not w.is_ancestor(sha, heads[dst]):
                    lossy.append((sha, info['kind'], wn, ff))
            for line in out.splitlines():
                sha, author = line.split(' ', 1)
                if author == ROBOT:
                    continue
                if src in heads and w.is_ancestor(sha, heads[src]):
                    continue
                pristine = False
        self.pre = {'pid': pid, 'src': src, 'ws': ws, 'lossy': lossy,
                    'pristine': pristine and bool(ws)}

    def after_job(self, hist, res, step):
        ex = [k for _, k in C10NoSpam.executions
              if k in ('reset', 'force_reset')]
        C10NoSpam.executions = []
        out = []
        if ex and self.pre:
            # a reset is the answer to a reset command: it is never executed
            # more often than such commands were posted on the pull request
            # (a stale command that keeps firing makes "the next evaluation
            # rebuilds" false and lets a later plain evaluation discard work)
            pid = self.pre['pid']
            cnt = hist.mon_state.setdefault('c15_exec', {})
            cnt[pid] = cnt.get(pid, 0) + 1
            log = hist.mon_state.get('c10_posted', {})
            posted = log.get((pid, 'reset'), 0) + \
                log.get((pid, 'force_reset'), 0)
            if cnt[pid] > posted:
                out.append((
                    'C15: %s executed for the %d. time on PR #%d although '
                    'only %d reset command(s) were posted: the evaluation '
                    'after a reset does not rebuild' % (
                        ex[0], cnt[pid], pid, posted),
                    {'monitor': 'C15',
                     'clause': 'reset_executed_without_command'}))
        if not ex or not self.pre or \
                res.status not in ('ResetComplete', 'LossyResetWarning'):
            return out
        cmd = ex[0]
        pre = self.pre
        changed = [(old, new, ref[len(H):]) for tx in res.txs
                   for a, old, new, ref in tx
                   if a == 'berte' and ref.startswith(H)]
        hist.count('c15_' + cmd)
        hist.flags.add('c15_reset_seen')
        kinds = sorted(set(l[1] for l in pre['lossy']))
        # the manual work sits on integration branches that carry no robot
        # commit at all (every one of them a fast-forward of the source)
        shape = 'no_robot_commit' if pre['lossy'] and all(
            l[3] for l in pre['lossy']) else 'with_robot_commit'
        if pre['lossy']:
            hist.count('c15_with_manual_work')
            hist.flags.add('c15_manual')
        if cmd == 'reset':
            if pre['lossy'] and res.status != 'LossyResetWarning':
                out.append((
                    'C15: reset completed and discarded manual work on PR '
                    '#%d: %s' % (pre['pid'], [(l[0][:10], l[1], l[2])
                                              for l in pre['lossy']]),
                    {'monitor': 'C15', 'clause': 'lossy_reset_not_refused',
                     'manual_kinds': '+'.join(kinds), 'w_shape': shape}))
            elif not pre['lossy'] and pre['pristine'] and \
                    res.status != 'ResetComplete':
                out.append((
                    'C15: reset refused although the integration branches '
                    'of PR #%d hold only robot commits and source commits'
                    % pre['pid'],
                    {'monitor': 'C15', 'clause': 'pristine_reset_refused'}))
            elif not pre['lossy'] and not pre['pristine']:
                hist.count('c15_either_' + res.status)
        else:
            if res.status != 'ResetComplete':
                out.append(('C15: force_reset did not complete (%s)' %
                            res.status,
                            {'monitor': 'C15',
                             'clause': 'force_reset_refused'}))
        if res.status == 'LossyResetWarning' and changed:
            out.append(('C15: reset refused but changed refs %s' %
                        [c[2] for c in changed],
                        {'monitor': 'C15', 'clause': 'refusal_not_clean'}))
        if res.status == 'ResetComplete':
            foreign = [c[2] for c in changed if c[2] not in pre['ws']]
            if foreign:
                out.append(('C15: %s touched refs outside the PR\'s '
                            'integration branches: %s' % (cmd, foreign),
                            {'monitor': 'C15', 'clause': 'reset_touched_other',
                             'cmd': cmd}))
            left = [wn for wn in pre['ws'] if wn in res.heads1]
            if left:
                out.append(('C15: %s completed but %s remain' % (cmd, left),
                            {'monitor': 'C15', 'clause': 'reset_incomplete',
                             'cmd': cmd}))
            hist.mon_state['c15_rebuild'] = {'pid': pre['pid'],
                                             'ws': pre['ws']}
        return out[:2]


class C15Rebuild(Monitor):
    """After a completed reset the next evaluation rebuilds the w/ branches
    (when it gets as far as the approval/build gates)."""
    name = 'C15b'
    PAST_CREATION = ('ApprovalRequired', 'BuildNotStarted', 'BuildInProgress',
                     'BuildFailed', 'Queued')

    def after_job(self, hist, res, step):
        rb = hist.mon_state.get('c15_rebuild')
        if not rb or type(res.job).__name__ != 'PullRequestJob' or \
                res.job.pull_request.id != rb['pid'] or \
                res.status in ('ResetComplete', 'LossyResetWarning'):
            return
        hist.mon_state['c15_rebuild'] = None
        if res.status in self.PAST_CREATION:
            hist.count('c15_rebuild_checked')
            missing = [wn for wn in rb['ws'] if wn not in res.heads1]
            if missing:
                return [('C15: after reset, evaluation (%s) did not rebuild '
                         '%s' % (res.status, missing),
                         {'monitor': 'C15', 'clause': 'not_rebuilt'})]


WAIT_TEXTS = ('@robot wait', '/wait')


def hold_state(hist, pid):
    """Harness-side knowledge of the holds on a PR: (kind, detail) or None.
    Only the comment forms the harness itself posts are recognised."""
    import re
    w = hist.world
    deps = []
    wait = False
    for _, user, text in w.comments(pid):
        # (no message of the robot itself consists of one of these short
        # forms; a hold posted through the robot's account is a hold)
        t = text.strip()
        if t in WAIT_TEXTS:
            wait = True
        if re.match(r'^@robot( after_pull_request=\S+)+$', t):
            deps.extend(re.findall(r'after_pull_request=(\S+)', t))
    if wait:
        return ('wait', None)
    states = {p[0]: p[4] for p in w.all_prs()}
    for d in deps:
        if not d.isdigit():
            continue          # ignored on purpose by the code: EITHER
        n = int(d)
        if n not in states:
            return ('dep_unknown', n)
        if states[n] != 'MERGED':
            return ('dep_' + states[n].lower(), n)
    return None


class C12Hold(Monitor):
    """While a hold is present nothing is created or merged for that PR."""
    name = 'C12'

    def before_job(self, hist, job, step):
        w = hist.world
        heads = w.heads()
        self.held = {}
        for pid, info in w.prs.items():
            if info.get('foreign'):
                continue
            h = hold_state(hist, pid)
            if h:
                queued = any(n.startswith('q/w/%d/' % pid) for n in heads)
                has_w = any(n.startswith('w/') and
                            n.split('/', 2)[2] == info['src'] for n in heads)
                self.held[pid] = (h, queued, has_w)

    def after_job(self, hist, res, step):
        w = hist.world
        out = []
        for pid, (h, queued, has_w) in sorted(self.held.items()):
            info = w.prs[pid]
            src = info['src']
            hist.count('c12_job_with_hold_' + h[0])
            hist.flags.add('c12_hold')
            touched = []
            for tx in res.txs:
                for a, old, new, ref in tx:
                    if a != 'berte' or not ref.startswith(H) or new == Z40:
                        continue
                    n = ref[len(H):]
                    if (n.startswith('w/') and n.split('/', 2)[2] == src) \
                            or n.startswith('q/w/%d/' % pid):
                        touched.append(n)
            merged_now = False
            if src in res.heads1 and info['dst'] in res.heads1 and \
                    info['dst'] in res.heads0 and src in res.heads0:
                before = w.is_ancestor(res.heads0[src],
                                       res.heads0[info['dst']])
                after = w.is_ancestor(res.heads1[src],
                                      res.heads1[info['dst']])
                merged_now = after and not before and any(
                    a == 'berte' for tx in res.txs for a, _, _, _ in tx)
            if queued:
                if touched or merged_now:
                    hist.count('c12_stat_hold_added_after_queued_progressed')
                continue
            if touched:
                out.append((
                    'C12: PR #%d is held (%s) but job %s (%s) created/updated '
                    '%s' % (pid, h, job_desc(res.job), res.status, touched),
                    {'monitor': 'C12', 'clause': 'refs_while_held',
                     'hold': h[0]}))
            if merged_now:
                out.append((
                    'C12: PR #%d is held (%s) but job %s (%s) merged it' %
                    (pid, h, job_desc(res.job), res.status),
                    {'monitor': 'C12', 'clause': 'merged_while_held',
                     'hold': h[0]}))
        return out[:2]


class C12Foreign(Monitor):
    """PRs Bert-E does not handle get no comment and cause no ref change."""
    name = 'C12f'

    def after_job(self, hist, res, step):
        w = hist.world
        if type(res.job).__name__ != 'PullRequestJob':
            return
        pid = res.job.pull_request.id
        info = w.prs.get(pid)
        if not info or not info.get('foreign'):
            return
        hist.count('c12_foreign_evaluations')
        hist.flags.add('c12_foreign')
        out = []
        if res.host0 != res.host1:
            out.append((
                'C12: PR #%d (%s -> %s) is not handled by Bert-E but the host '
                'state changed (status %s): %r' %
                (pid, info['src'], info['dst'], res.status,
                 [c for c in res.host1['comments'].get(pid, [])
                  if c not in res.host0['comments'].get(pid, [])][:1]),
                {'monitor': 'C12', 'clause': 'foreign_pr_commented'}))
        if any(a == 'berte' for tx in res.txs for a, _, _, _ in tx):
            out.append((
                'C12: PR #%d (%s -> %s) is not handled by Bert-E but refs '
                'changed (status %s)' % (pid, info['src'], info['dst'],
                                         res.status),
                {'monitor': 'C12', 'clause': 'foreign_pr_refs'}))
        return out


def parse_dest(name):
    """(kind, version tuple) for destination names, else None."""
    kind, _, ver = name.partition('/')
    parts = ver.split('.')
    if not parts or not all(p.isdigit() for p in parts):
        return None
    v = tuple(int(p) for p in parts)
    if kind == 'development' and len(v) in (1, 2):
        return ('development', v)
    if kind == 'stabilization' and len(v) == 3:
        return ('stabilization', v)
    if kind == 'hotfix' and len(v) == 3:
        return ('hotfix', v)
    return None


def wellformed_problems(world, heads, tags):
    """Independent well-formedness predicate of a repository state."""
    probs = []
    devs, stabs = set(), {}
    for n in heads:
        p = parse_dest(n)
        if not p:
            continue
        if p[0] == 'development':
            devs.add(p[1])
        elif p[0] == 'stabilization':
            stabs.setdefault(p[1][:2], []).append(p[1][2])
    released = {}
    for t in tags:
        tt = t[1:] if t.startswith('v') else t
        parts = tt.split('.')
        if len(parts) in (3, 4) and all(x.isdigit() for x in parts):
            k = (int(parts[0]), int(parts[1]))
            released[k] = max(released.get(k, -1), int(parts[2]))
    for line, micros in sorted(stabs.items()):
        if len(micros) > 1:
            probs.append('two stabilization branches for %d.%d' % line)
        if line not in devs:
            probs.append('stabilization/%d.%d.x without development/%d.%d'
                         % (line + line))
        for m in micros:
            if m != released.get(line, -1) + 1:
                probs.append('stabilization/%d.%d.%d but latest release of '
                             'the line is %d' % (line + (m, released.get(
                                 line, -1))))
    for a, b in world.chain_broken(heads):
        probs.append('%s not contained in %s' % (a, b))
    return probs


class C20Admin(Monitor):
    """Admin jobs keep the repository well-formed or do nothing."""
    name = 'C20'

    def start(self, hist):
        hist.mon_state['queue_order'] = []

    def after_job(self, hist, res, step):
        w = hist.world
        jn = type(res.job).__name__
        out = []
        order = hist.mon_state['queue_order']
        if jn == 'PullRequestJob' and res.status == 'Queued':
            pid = res.job.pull_request.id
            if pid not in order:
                order.append(pid)
        # forget PRs that are no longer queued
        order[:] = [p for p in order
                    if any(n.startswith('q/w/%d/' % p) for n in res.heads1)]
        if not jn.endswith('Job') or jn in ('PullRequestJob', 'CommitJob'):
            return
        changed = [(a, old, new, ref) for tx in res.txs
                   for a, old, new, ref in tx if a == 'berte']
        refused = res.status in ('JobFailure', 'NothingToDo', 'NotMyJob')
        hist.count('c20_%s_%s' % (jn, res.status or 'none'))
        hist.flags.add('c20_admin')
        queued0 = sorted(set(int(n.split('/')[2]) for n in res.heads0
                             if n.startswith('q/w/')))
        if queued0:
            hist.flags.add('c20_admin_with_queued')
        branch = res.job.settings.get('branch') if jn in (
            'CreateBranchJob', 'DeleteBranchJob') else None
        if refused and changed:
            out.append((
                'C20: %s(%s) refused (%s: %s) but changed %s' %
                (jn, branch, res.status, res.details,
                 sorted(set(c[3] for c in changed))),
                {'monitor': 'C20', 'clause': 'refusal_not_clean', 'job': jn}))
        if res.status not in ('JobSuccess', 'JobFailure', 'NothingToDo',
                              'NotMyJob', 'Merged', 'QueueBuildFailed'):
            hist.count('c20_stat_job_error_%s' % res.status)
        if jn == 'CreateBranchJob' and res.status == 'JobSuccess':
            p = parse_dest(branch or '')
            hist.flags.add('c20_created')
            if not p or branch not in res.heads1:
                out.append(('C20: create-branch %r reported success but the '
                            'branch is %s' % (branch, 'not a destination name'
                                              if not p else 'missing'),
                            {'monitor': 'C20', 'clause': 'create_bad_name'}))
            else:
                probs = wellformed_problems(w, res.heads1, res.tags1)
                before = wellformed_problems(w, res.heads0, res.tags0)
                new_probs = [x for x in probs if x not in before]
                if new_probs:
                    out.append((
                        'C20: create-branch %s succeeded but the repository '
                        'is now ill-formed: %s' % (branch, new_probs[:3]),
                        {'monitor': 'C20', 'clause': 'create_illformed',
                         'kind': p[0]}))
                ver = branch.split('/', 1)[1]
                if ver in res.tags0:
                    out.append((
                        'C20: create-branch %s succeeded although archive tag '
                        '%s exists' % (branch, ver),
                        {'monitor': 'C20', 'clause': 'create_archived'}))
                if p[0] == 'development' and w.mode != 'noqueue' and \
                        queued0:
                    devs = sorted(
                        (parse_dest(n)[1] for n in res.heads0
                         if parse_dest(n) and
                         parse_dest(n)[0] == 'development'),
                        key=lambda v: (v[0], 10 ** 6 if len(v) == 1
                                       else v[1]))
                    key = (p[1][0], 10 ** 6 if len(p[1]) == 1 else p[1][1])
                    newest = (devs[-1][0], 10 ** 6 if len(devs[-1]) == 1
                              else devs[-1][1]) if devs else None
                    if newest and key < newest:
                        out.append((
                            'C20: create-branch %s (older than the newest '
                            'development branch) succeeded with pull '
                            'requests %s queued' % (branch, queued0),
                            {'monitor': 'C20',
                             'clause': 'create_with_queued'}))
        if jn == 'DeleteBranchJob':
            p = parse_dest(branch or '')
            if p and branch in res.heads0:
                ver = branch.split('/', 1)[1]
                must_refuse = []
                if w.mode != 'noqueue':
                    qv = ver
                    if any(n.startswith('q/w/') and
                           (n.split('/')[3] == qv or
                            (p[0] == 'hotfix' and
                             n.split('/')[3].startswith(qv + '.')))
                           for n in res.heads0):
                        must_refuse.append('queued pull requests')
                if p[0] == 'development' and any(
                        n.startswith('stabilization/%s.' % ver)
                        for n in res.heads0):
                    must_refuse.append('live stabilization branch')
                if must_refuse:
                    hist.count('c20_delete_must_refuse')
                if must_refuse and res.status == 'JobSuccess':
                    out.append((
                        'C20: delete-branch %s succeeded despite %s' %
                        (branch, must_refuse),
                        {'monitor': 'C20', 'clause': 'delete_not_refused',
                         'why': must_refuse[0]}))
                if res.status == 'JobSuccess':
                    hist.flags.add('c20_deleted')
                    tag = ver + ('.archived_hotfix_branch'
                                 if p[0] == 'hotfix' else '')
                    if branch in res.heads1 or \
                            res.tags1.get(tag) != res.heads0[branch]:
                        out.append((
                            'C20: delete-branch %s succeeded but branch '
                            'present=%s, archive tag %s -> %s (old tip %s)' %
                            (branch, branch in res.heads1, tag,
                             str(res.tags1.get(tag))[:10],
                             res.heads0[branch][:10]),
                            {'monitor': 'C20',
                             'clause': 'delete_without_archive_tag'}))
        if jn in ('RebuildQueuesJob', 'DeleteQueuesJob'):
            foreign = sorted(set(c[3] for c in changed
                                 if not c[3].startswith(H + 'q/')))
            if foreign:
                out.append(('C20: %s changed refs outside q/*: %s' %
                            (jn, foreign),
                            {'monitor': 'C20', 'clause': 'queue_job_foreign',
                             'job': jn}))
        if jn == 'RebuildQueuesJob' and res.status == 'JobSuccess':
            pend = [j.pull_request.id for j in res.pending
                    if type(j).__name__ == 'PullRequestJob']
            hist.count('c20_rebuild_checked')
            if queued0:
                hist.flags.add('c20_rebuild_with_queued')
            if sorted(pend) != queued0:
                out.append(('C20: rebuild re-submitted %s but %s were queued'
                            % (pend, queued0),
                            {'monitor': 'C20', 'clause': 'rebuild_set'}))
            else:
                # relative order of non-hotfix PRs = order of entry
                hot = set(int(n.split('/')[2]) for n in res.heads0
                          if n.startswith('q/w/') and
                          len(n.split('/')[3].split('.')) == 4)
                want = [p_ for p_ in hist.mon_state.get('queue_order0', [])
                        if p_ in queued0 and p_ not in hot]
                got = [p_ for p_ in pend if p_ not in hot]
                if want and sorted(want) == sorted(got) and want != got:
                    out.append(('C20: rebuild re-submitted %s, queue order '
                                'was %s' % (got, want),
                                {'monitor': 'C20',
                                 'clause': 'rebuild_order'}))
        return out[:2]

    def before_job(self, hist, job, step):
        hist.mon_state['queue_order0'] = list(hist.mon_state['queue_order'])
