"""Hypothesis-driven exploration of histories with collect-then-shrink."""
import json

from hypothesis import HealthCheck, Phase, given, seed, settings
from hypothesis import strategies as st

from vf.cli import jhash
from vf.sim.driver import History, draw_steps, replay_case, st_params
from vf.sim.world import Scratch


def sig_key(sig):
    return json.dumps(sig, sort_keys=True)


def explore(ctx, shard, acc, make_monitors, n_histories, steps=(10, 30),
            weights=None, params_kw=None, nontrivial=None, classes=None,
            known_sigs=(), body=None, max_prs=4, prelude=None,
            inject=False):
    """Run n_histories generated histories in this process.

    make_monitors() -> fresh monitor list per history.
    nontrivial(hist) -> bool ; classes(hist) -> iterable of class labels.
    body(data, hist) optional custom loop (default: random steps).
    A history stops at its first violation that is not in known_sigs.
    """
    scratch = Scratch()
    found = {}  # sig_key -> (size, case, message, sig)

    def record(hist):
        for msg, sig in hist.violations:
            k = sig_key(sig)
            case = hist.case()
            size = len(case['steps'])
            if k not in found or size < found[k][0]:
                found[k] = (size, case, msg, sig)

    @seed(ctx['seed'] * 1000 + shard)
    @settings(max_examples=n_histories, database=None, deadline=None,
              derandomize=False, report_multiple_bugs=False,
              suppress_health_check=list(HealthCheck),
              phases=[Phase.generate])
    @given(st.data())
    def run(data):
        params = data.draw(st_params(**(params_kw or {})), label='params')
        hist = History(scratch, params, make_monitors(), inject=inject)
        try:
            if prelude:
                prelude(data, hist)
            if body:
                body(data, hist)
            else:
                n = data.draw(st.integers(*steps), label='nsteps')
                stop = False
                while len(hist.steps) < n and not stop:
                    for step in draw_steps(data, hist, weights,
                                           max_prs=max_prs):
                        hist.apply(step)
                        if step['op'] == 'admin':
                            hist.apply({'op': 'drain'})
                        if any(sig_key(s) not in known_sigs
                               for _, s in hist.violations):
                            stop = True
                            break
            record(hist)
            nt = nontrivial(hist) if nontrivial else True
            key = jhash(hist.case())
            sample = None
            if acc._nt_samples < 3 or acc._t_samples < 1:
                sample = {'params': params,
                          'steps': hist.steps[:40],
                          'job_statuses': hist.job_statuses[:40]}
            acc.case(key, nt, sample=sample,
                     classes=list(classes(hist)) if classes else ())
            for k, v in hist.stats.items():
                acc.classes[k] += v
            acc.classes['jobs'] += hist.world.jobs_run
        finally:
            hist.close()

    try:
        run()
        # shrink each root cause by bounded delta debugging on the step list
        import os
        for k, (size, case, msg, sig) in sorted(found.items()):
            if os.environ.get('VERIF_NO_SHRINK'):
                small = case      # (bulk sensitivity runs only want yes/no)
            else:
                small = ddmin(scratch, case, make_monitors, sig,
                              inject=inject)
            acc.violation(msg, small, sig)
    finally:
        scratch.cleanup()


def has_sig(scratch, case, make_monitors, sig, inject=False):
    try:
        viols, _ = replay_case(scratch, case, make_monitors(),
                               inject=inject)
    except Exception:
        return False
    return any(sig_key(s) == sig_key(sig) for _, s in viols)


def ddmin(scratch, case, make_monitors, sig, budget=30, inject=False):
    steps = list(case['steps'])
    params = case['params']
    # snapshot-based steps leave the world as they found it: first try to
    # drop all of them except the last one (usually the failing one)
    side = ('fault', 'placed', 'rejected', 'cmdfail', 'twin', 'probe_path')
    idx = [i for i, st_ in enumerate(steps) if st_['op'] in side]
    if len(idx) > 1:
        cand = [st_ for i, st_ in enumerate(steps)
                if st_['op'] not in side or i == idx[-1]]
        budget -= 1
        if has_sig(scratch, {'params': params, 'steps': cand}, make_monitors,
                   sig, inject=inject):
            steps = cand
    if inject:
        budget = min(budget, 14)
    n = 2
    while len(steps) >= 2 and budget > 0:
        chunk = max(1, len(steps) // n)
        reduced = False
        for i in range(0, len(steps), chunk):
            cand = steps[:i] + steps[i + chunk:]
            if not cand:
                continue
            budget -= 1
            if has_sig(scratch, {'params': params, 'steps': cand},
                       make_monitors, sig, inject=inject):
                steps = cand
                n = max(n - 1, 2)
                reduced = True
                break
            if budget <= 0:
                break
        if not reduced:
            if chunk == 1:
                break
            n = min(len(steps), n * 2)
    return {'params': params, 'steps': steps}
