"""Small fakes around the *real* job / settings / reactor objects (engine E2).

Everything that decides a property is the repository's own code; the fakes
only stand for the git host and for git itself.
"""
import os
import tempfile
from types import SimpleNamespace

import bert_e.exceptions as bexc
from bert_e.job import PullRequestJob
from bert_e.settings import setup_settings
from bert_e.workflow import gitwaterflow as gwf

ROBOT = 'robot'
AUTHOR = 'author'
PEER1 = 'peer1'
PEER2 = 'peer2'
LEADER = 'leader'
ADMIN = 'admin'

_SETTINGS_CACHE = {}


def stub_render():
    """Template rendering costs ~1 ms and is not under test in E2 runs."""
    def fake(template, **kw):
        return 'T:%s' % template
    bexc.render = fake
    import bert_e.workflow.gitwaterflow.branches as b
    b.render = fake


def settings_yaml(**over):
    base = {
        'repository_owner': 'own',
        'repository_slug': 'slug',
        'repository_host': 'mock',
        'robot': ROBOT,
        'robot_email': 'nobody@nowhere.com',
        'build_key': 'pre-merge',
        'required_leader_approvals': 0,
        'required_peer_approvals': 2,
        'admins': [ADMIN],
        'project_leaders': [LEADER],
    }
    base.update(over)

    def dump(v, ind=0):
        out = []
        pad = '  ' * ind
        if isinstance(v, dict):
            if not v:
                return ' {}\n'
            out.append('\n')
            for k, x in v.items():
                out.append('%s%s:%s' % (pad, k, dump(x, ind + 1)))
            return ''.join(out)
        if isinstance(v, (list, tuple)):
            if not v:
                return ' []\n'
            out.append('\n')
            for x in v:
                out.append('%s- %s\n' % (pad, _scalar(x)))
            return ''.join(out)
        return ' %s\n' % _scalar(v)

    def _scalar(x):
        if isinstance(x, bool):
            return 'true' if x else 'false'
        if x == '':
            return "''"
        return '"%s"' % x if isinstance(x, str) else str(x)
    return ''.join('%s:%s' % (k, dump(v, 1)) for k, v in base.items())


def load_settings(**over):
    """Real SettingsSchema validation of a real yaml file (cached by key)."""
    key = repr(sorted(over.items(), key=lambda kv: kv[0]))
    if key not in _SETTINGS_CACHE:
        fd, path = tempfile.mkstemp(suffix='.yml', prefix='vf-settings-')
        try:
            with os.fdopen(fd, 'w') as f:
                f.write(settings_yaml(**over))
            s = setup_settings(path)
        finally:
            os.unlink(path)
        s['robot_password'] = 'pw'
        s['jira_token'] = 'tok'
        s['use_queue'] = not s.disable_queues
        _SETTINGS_CACHE[key] = s
    # fresh top-level copy so that callers may update it
    src = _SETTINGS_CACHE[key]
    from bert_e.lib.settings_dict import SettingsDict
    return SettingsDict(dict(src.maps[0]))


class FakeComment:
    def __init__(self, author, text, id_=0):
        self.author = author
        self.text = text
        self.id = id_


class FakePR:
    def __init__(self, author=AUTHOR, id_=1, src='bugfix/TEST-1-x',
                 dst='development/4.3', participants=(), approvals=(),
                 change_requests=(), comments=(), status='OPEN'):
        self.id = id_
        self.author = author
        self.author_display_name = author
        self.src_branch = src
        self.dst_branch = dst
        self.title = 'title'
        self.description = ''
        self.status = status
        self.src_commit = 'f' * 12
        self._participants = list(participants)
        self._approvals = list(approvals)
        self._change_requests = list(change_requests)
        self.comments = list(comments)
        self.posted = []
        self.bot_statuses = []

    def get_participants(self):
        return iter(self._participants)

    def get_approvals(self):
        return iter(self._approvals)

    def get_change_requests(self):
        return iter(self._change_requests)

    def get_comments(self):
        return iter(self.comments)

    def add_comment(self, msg):
        self.posted.append(msg)
        c = FakeComment(ROBOT, msg, len(self.comments) + 1)
        self.comments.append(c)
        return c

    def set_bot_status(self, status, title, summary):
        self.bot_statuses.append((status, title))


class FakeHost:
    """Stands for AbstractRepository: build statuses and PR lookup."""
    def __init__(self, statuses=None, prs=()):
        self.statuses = statuses or {}
        self.prs = {p.id: p for p in prs}
        self.status_queries = []
        self.full_name = 'own/slug'

    def get_build_status(self, revision, key):
        self.status_queries.append((revision, key))
        return self.statuses.get((revision, key), 'NOTSTARTED')

    def get_build_url(self, revision, key):
        return 'http://build/%s' % revision

    def get_commit_url(self, revision):
        return 'http://commit/%s' % revision

    def get_pull_request(self, pull_request_id):
        assert isinstance(pull_request_id, int)
        if pull_request_id not in self.prs:
            raise Exception('Did not find this pr')
        return self.prs[pull_request_id]

    def get_pull_requests(self, author=None, src_branch=None, status='OPEN'):
        for p in self.prs.values():
            if p.status != status:
                continue
            if isinstance(src_branch, str) and p.src_branch != src_branch:
                continue
            if src_branch is not None and not isinstance(src_branch, str) \
                    and p.src_branch not in src_branch:
                continue
            yield p


class FakeBranch:
    def __init__(self, name, sha):
        self.name = name
        self.sha = sha

    def get_latest_commit(self):
        return self.sha

    def __str__(self):
        return self.name


def make_job(settings, pr, host=None, git_repo=None, job_settings=None):
    """A real PullRequestJob over a BertE double."""
    host = host or FakeHost()
    berte = SimpleNamespace(
        settings=settings, project_repo=host, git_repo=git_repo,
        client=SimpleNamespace(login=str(settings.robot)),
        add_merged_pr=lambda pr_id: None)
    return PullRequestJob(bert_e=berte, pull_request=pr,
                          settings=job_settings or {})


def set_cmdline_options(keys):
    """What BertE.__init__ does with settings.cmd_line_options."""
    gwf.setup({k: True for k in keys})


def reset_cmdline_options():
    gwf.setup({})
