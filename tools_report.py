#!/usr/bin/env python3
"""Builds seeded/README.md: which independently written breaking change is
caught by which check (from seeded/*/meta.json as recorded by tools_seeded)."""
import glob
import json
import os

HERE = os.path.dirname(os.path.abspath(__file__))
rows = []
for mp in sorted(glob.glob(os.path.join(HERE, 'seeded', '*', 'meta.json'))):
    sid = os.path.basename(os.path.dirname(mp))
    m = json.load(open(mp))
    v = m.get('lead_verification', {})
    summary = m.get('summary') or m.get('raw_meta', '')[:200]
    needs = m.get('needs', '')
    if isinstance(summary, (list, dict)):
        summary = json.dumps(summary)
    if isinstance(needs, (list, dict)):
        needs = json.dumps(needs)
    checks = '; '.join('%s: %s (%ss)' % (
        c, 'caught' if r['exit'] == 1 else ('MISSED' if r['exit'] == 0
                                            else 'harness error'),
        r['wall_s']) for c, r in sorted(v.get('checks', {}).items()))
    hist = '; '.join(m.get('history', []))
    rows.append((sid, m.get('breaks_property', ''), v.get('confirmed'),
                 ' '.join(str(summary).split())[:260],
                 ' '.join(str(needs).split())[:260], checks, hist))
with open(os.path.join(HERE, 'seeded', 'README.md'), 'w') as f:
    f.write('# Independently written breaking changes\n\n'
            'Each directory holds `patch.diff` (apply with `git -C /repo '
            'apply`), the author\'s demonstration, `meta.json` (author\'s '
            'description + `lead_verification`: demo exit with/without the '
            'change, pinned-suite comparison, and the exit code of our '
            'quick checks against the changed tree) and, when caught, the '
            'shrunk replay our check produced.\n\n'
            '| id | property | confirmed | change | needs | quick checks '
            '(last run) | history |\n|---|---|---|---|---|---|---|\n')
    for r in rows:
        f.write('| %s | %s | %s | %s | %s | %s | %s |\n' % tuple(
            str(x).replace('|', '/') for x in r))
print(len(rows), 'seeds')
