#!/usr/bin/env python3
"""Confirm an independently written breaking change and run our checks on it.

usage: tools_seeded.py <worktree> <PROPERTY> <tag> [CHECK ...]

* copies patch.diff, demo, meta.json into seeded/<PROPERTY>-<tag>/
* confirms: demo fails with the change, passes without it (git stash), the
  runnable pinned tests give the same pass/fail sets with the change
* runs the given checks (default: the property's own) with
  VERIF_REPO=<worktree> and a private VERIF_HOME
* records everything in seeded/<id>/meta.json under "lead_verification"
"""
import glob
import json
import os
import re
import shutil
import subprocess
import sys
import tempfile
import time

HERE = os.path.dirname(os.path.abspath(__file__))
PINNED = ['bert_e/tests/unit', 'bert_e/tests/test_server.py',
          'bert_e/tests/test_git_host.py',
          'bert_e/tests/test_bert_e.py::QuickTest',
          'bert_e/tests/test_bert_e.py::BuildFailedTest']


def sh(cmd, cwd, env=None, timeout=3600):
    p = subprocess.run(cmd, cwd=cwd, env=env, stdout=subprocess.PIPE,
                       stderr=subprocess.STDOUT, universal_newlines=True,
                       timeout=timeout)
    return p.returncode, p.stdout


def pinned(wt):
    home = tempfile.mkdtemp(prefix='vf-seedhome-')
    try:
        rc, out = sh(['/venv/bin/python', '-m', 'pytest', '-q', '-p',
                      'no:cacheprovider', '--timeout=900',
                      '--continue-on-collection-errors', '-rfE'] + PINNED,
                     wt, dict(os.environ, HOME=home, PYTHONPATH=wt))
    finally:
        shutil.rmtree(home, ignore_errors=True)
    bad = sorted(set(re.findall(r'^(?:FAILED|ERROR) (\S+)', out, re.M)))
    summary = out.strip().splitlines()[-1] if out.strip() else ''
    return bad, summary


def main():
    args = [a for a in sys.argv[1:] if a != '--checks-only']
    checks_only = '--checks-only' in sys.argv
    wt, prop, tag = args[0:3]
    checks = args[3:] or [prop]
    sid = '%s-%s' % (prop, tag)
    dst = os.path.join(HERE, 'seeded', sid)
    os.makedirs(dst, exist_ok=True)
    demo = glob.glob(os.path.join(wt, 'demo_*.py'))[0]
    if not checks_only:
        for f in ('patch.diff', 'meta.json', os.path.basename(demo)):
            shutil.copy(os.path.join(wt, f), dst)
    env = dict(os.environ, PYTHONPATH=wt, PYTHONWARNINGS='ignore')
    ver = {'at': time.strftime('%Y-%m-%d %H:%M')}
    if checks_only:
        old_ = json.load(open(os.path.join(dst, 'meta.json'))).get(
            'lead_verification', {})
        for k in ('patch_matches_worktree', 'demo_exit_with_change',
                  'demo_exit_without_change', 'pinned_without_change',
                  'pinned_with_change', 'pinned_same_failing_set',
                  'confirmed'):
            ver[k] = old_.get(k)
        return run_checks(wt, dst, prop, checks, ver)
    # the patch must be exactly the working-tree change
    rc, diff = sh(['git', 'diff', '--', 'bert_e'], wt)
    ver['patch_matches_worktree'] = (diff.strip() == open(os.path.join(
        wt, 'patch.diff')).read().strip())
    rc_with, out = sh(['/venv/bin/python', demo], wt, env)
    ver['demo_exit_with_change'] = rc_with
    # (git stash is shared between worktrees: use the patch itself)
    patch = os.path.join(dst, 'patch.diff')
    rc, o = sh(['git', 'apply', '-R', patch], wt)
    assert rc == 0, o
    try:
        rc_without, out2 = sh(['/venv/bin/python', demo], wt, env)
        base_bad, base_sum = pinned(wt)
    finally:
        rc, o = sh(['git', 'apply', patch], wt)
        assert rc == 0, o
    ver['demo_exit_without_change'] = rc_without
    bad, summ = pinned(wt)
    ver['pinned_without_change'] = base_sum
    ver['pinned_with_change'] = summ
    ver['pinned_same_failing_set'] = (bad == base_bad)
    ver['confirmed'] = (rc_with != 0 and rc_without == 0 and bad == base_bad)
    run_checks(wt, dst, prop, checks, ver)


def run_checks(wt, dst, prop, checks, ver):
    ver['checks'] = {}
    for c in checks:
        vh = tempfile.mkdtemp(prefix='vf-mh-')
        shutil.copy(os.path.join(HERE, 'known_findings.json'), vh)
        t0 = time.time()
        p = subprocess.run(
            ['/venv/bin/python', '-m', 'vf.cli', c, '--tier', 'quick'],
            cwd=HERE, env=dict(
                os.environ, VERIF_REPO=wt, VERIF_HOME=vh, PYTHONHASHSEED='0',
                VERIF_NO_SHRINK=os.environ.get('VERIF_NO_SHRINK', ''),
                PYTHONWARNINGS='ignore', PYTHONDONTWRITEBYTECODE='1',
                PYTHONPATH='%s:%s:%s/.deps' % (wt, HERE, HERE)),
            stdout=subprocess.PIPE, stderr=subprocess.STDOUT,
            universal_newlines=True)
        lines = [l for l in p.stdout.splitlines()
                 if l.startswith(('VIOLATION', 'OK ', 'HARNESS', '  '))]
        ver['checks'][c] = {'exit': p.returncode,
                            'wall_s': round(time.time() - t0),
                            'output': [l[:300] for l in lines[:4]]}
        # keep the replay of the first violation next to the seed
        for rf in glob.glob(os.path.join(vh, 'replays', c, '*.json'))[:1]:
            target = os.path.join(dst, 'replay_%s.json' % c)
            if not (os.environ.get('VERIF_NO_SHRINK') and
                    os.path.exists(target)):
                shutil.copy(rf, target)
        shutil.rmtree(vh, ignore_errors=True)
    mp = os.path.join(dst, 'meta.json')
    try:
        meta = json.load(open(mp))
    except Exception:
        meta = {'raw_meta': open(mp).read()}
    meta['breaks_property'] = prop
    hist_ = meta.get('history', [])
    old_v = meta.get('lead_verification')
    if old_v and not hist_:
        hist_.append('%s %s' % (old_v.get('at', '?'), ', '.join(
            '%s=%s' % (c, {0: 'missed', 1: 'caught'}.get(r['exit'], 'error'))
            for c, r in sorted(old_v.get('checks', {}).items()))))
    hist_.append('%s %s' % (ver['at'], ', '.join(
        '%s=%s' % (c, {0: 'missed', 1: 'caught'}.get(r['exit'], 'error'))
        for c, r in sorted(ver['checks'].items()))))
    meta['history'] = hist_
    meta['lead_verification'] = ver
    json.dump(meta, open(mp, 'w'), indent=1)
    print(json.dumps(ver, indent=1))


if __name__ == '__main__':
    main()
