#!/usr/bin/env python3
"""Sensitivity runs for the simulator checks: each mutant is applied to a
scratch copy of /repo (never to /repo), the listed checks are run against it
with VERIF_REPO, the copy is removed.  Results: sensitivity/SIM.md

usage: tools_mutants.py [mutant-name ...]
"""
import os
import shutil
import subprocess
import sys
import tempfile
import time

HERE = os.path.dirname(os.path.abspath(__file__))
G = 'bert_e/workflow/gitwaterflow/'

MUTANTS = [
    # name, checks, file, old, new
    ('c01_drop_prev_dst_merge', ['C01'], G + 'integration.py',
     """        if job.settings.no_octopus:
            # Merge the integration branch first: when it already contains
            # both targets (direct merge, queue skipped) the destination is
            # fast-forwarded to the commit that was built instead of getting
            # a brand new, never built, merge commit.
            consecutive_merge(wbranch.dst_branch, wbranch, prev.dst_branch)
        else:
            robust_merge(wbranch.dst_branch, prev.dst_branch, wbranch)
""", """        wbranch.dst_branch.merge(wbranch)
"""),
    ('c01_queue_drop_prev_qint', ['C01', 'C02'], G + 'queueing.py',
     """            if job.settings.no_octopus:
                consecutive_merge(qbranch, wbranch, qint)
            else:
                robust_merge(qbranch, wbranch, qint)
""", """            qbranch.merge(wbranch)
"""),
    ('c01_create_branch_no_validate', ['C01', 'C20'],
     'bert_e/jobs/create_branch.py',
     """        new_cascade.validate()
""", """        pass
"""),
    ('c02_push_all_not_atomic', ['C02'], 'bert_e/lib/git.py',
     "self.cmd('git push --atomic origin %s' % ' '.join(refspecs))",
     "self.cmd('git push origin %s' % ' '.join(refspecs))"),
    ('c02_named_push_not_atomic', ['C02'], 'bert_e/lib/git.py',
     "self.cmd('git push --atomic --set-upstream origin ' + name)",
     "self.cmd('git push --set-upstream origin ' + name)"),
    ('c03_only_failed_blocks', ['C03', 'C05'], G + 'branches.py',
     """                if status != 'SUCCESSFUL':
                    first_failed_pr = qint.pr_id""",
     """                if status == 'FAILED':
                    first_failed_pr = qint.pr_id"""),
    ('c03_no_build_gate', ['C03', 'C06'], G + '__init__.py',
     """    check_approvals(job)
    check_build_status(job, wbranches)
""", """    check_approvals(job)
"""),
    ('c03_skip_queue_ignores_wbranches', ['C03'], G + 'queueing.py',
     """    for branch, dst_branch in zip(wbranches, job.git.cascade.dst_branches):
        if not branch.includes_commit(dst_branch.get_latest_commit()):
            return True
""", ""),
    ('c06_min_instead_of_max', ['C06'], G + '__init__.py',
     "worst = max(wbranches, key=lambda b: ordered_state[statuses[b.name]])",
     "worst = min(wbranches, key=lambda b: ordered_state[statuses[b.name]])"),
    ('c06_stopped_waits', ['C06'], G + '__init__.py',
     "if worst_status in ('FAILED', 'STOPPED'):",
     "if worst_status in ('FAILED',):"),
    ('c06_status_of_dst_tip', ['C06'], G + '__init__.py',
     """        return job.project_repo.get_build_status(
            branch.get_latest_commit(), key)""",
     """        return job.project_repo.get_build_status(
            getattr(branch, 'dst_branch', branch).get_latest_commit(), key)"""),
    ('c08_force_push', ['C08'], 'bert_e/lib/git.py',
     "self.cmd('git push --atomic origin %s' % ' '.join(refspecs))",
     "self.cmd('git push --force --atomic origin %s' % ' '.join(refspecs))"),
    ('c08_revert_prune_fix', ['C08'], 'bert_e/lib/git.py',
     """            refspecs.extend("':refs/heads/%s'" % name
                            for name in self._locally_deleted_branches())
        try:
            self.cmd('git push --atomic origin %s' % ' '.join(refspecs))""",
     """            pass
        try:
            self.cmd('git push --all --atomic %s' %
                     ('--prune' if prune else ''))"""),
    ('c08_delete_before_tag', ['C08', 'C20'], 'bert_e/jobs/delete_branch.py',
     """    try:
        del_branch.checkout()
        repo.cmd('git tag %s' % archive_tag)
        repo.cmd('git push origin %s' % archive_tag)
    except CommandError:
        raise exceptions.JobFailure('Unable to push new tag, '
                                    'keep pushing.')

    do_delete(del_branch, force=True)
""", """    del_branch.checkout()
    repo.cmd('git tag %s' % archive_tag)
    do_delete(del_branch, force=True)
    try:
        repo.cmd('git push origin %s' % archive_tag)
    except CommandError:
        raise exceptions.JobFailure('Unable to push new tag, '
                                    'keep pushing.')
"""),
    ('c10_approval_repeats', ['C10'], 'bert_e/exceptions.py',
     """class ApprovalRequired(TemplateException):
    code = 115
""", """class ApprovalRequired(TemplateException):
    code = 115
    dont_repeat_if_in_history = 0
"""),
    ('c10_commands_from_all_comments', ['C10'], G + '__init__.py',
     """        if author == job.settings.robot:
            return
        privileged = author in admins and author != pr_author
        text = comment.text
        try:
            reactor.handle_commands""",
     """        if author == job.settings.robot:
            continue
        privileged = author in admins and author != pr_author
        text = comment.text
        try:
            reactor.handle_commands"""),
    ('c10_settings_leak_between_jobs', ['C10', 'C12'], 'bert_e/reactor.py',
     "            job.settings[key] = copy(option.default)",
     "            job.settings[key] = option.default"),
    ('c12_dependencies_checked_late', ['C12'], G + '__init__.py',
     """    check_dependencies(job)

    # Now we're actually going to work on the repository. Let's clone it.
    clone_git_repo(job)
""", """    # Now we're actually going to work on the repository. Let's clone it.
    clone_git_repo(job)
"""),  # completed below by a second edit
    ('c12_declined_dependency_ok', ['C12'], G + '__init__.py',
     "        merged = [p for p in prs if p.status == 'MERGED']",
     "        merged = [p for p in prs if p.status in ('MERGED', "
     "'DECLINED')]"),
    ('c12_greet_before_early_checks', ['C12'], G + '__init__.py',
     """    early_checks(job)
    send_greetings(job)
""", """    send_greetings(job)
    early_checks(job)
"""),
    ('c15_robot_commits_count', ['C15'], G + 'commands.py',
     """            if rev.author == job.settings.robot:
                continue
""", ""),
    ('c15_revert_merge_fix', ['C15'], G + 'commands.py',
     """        wcommits = reversed(list(branch.get_commit_diff(dst,
                                                        ignore_merges=False)))""",
     """        wcommits = reversed(list(branch.get_commit_diff(dst)))"""),
    ('c15_reset_deletes_all_w', ['C15', 'C19'], G + 'commands.py',
     """    for branch in wbranches:
        branch.remove(do_push=False)
    push(job.git.repo, prune=True)
""", """    for branch in wbranches:
        branch.remove(do_push=False)
    for name in list(job.git.repo.remote_branches):
        if name.startswith('w/') and not name.endswith(
                '/' + job.git.src_branch.name):
            job.git.repo.cmd('git branch -D %s', name)
    push(job.git.repo, prune=True)
"""),
    ('c19_always_create_child', ['C19'], G + 'branches.py',
     """        pr = self.get_pull_request_from_list(open_prs)
        # need a boolean to know if the PR is created or no""",
     """        pr = None
        # need a boolean to know if the PR is created or no"""),
    ('c19_decline_children_by_source_only', ['C19'], G + '__init__.py',
     """            if (pr.status == 'OPEN' and
                    pr.src_branch == name and
                    pr.dst_branch == dst_branch.name):""",
     """            if (pr.status == 'OPEN' and
                    pr.dst_branch == dst_branch.name):"""),
    ('c20_create_ignores_queued', ['C20'], 'bert_e/jobs/create_branch.py',
     "        if queue_collection.queued_prs:",
     "        if False and queue_collection.queued_prs:"),
    ('c20_delete_queues_also_w', ['C20', 'C08'],
     'bert_e/jobs/delete_queues.py',
     "        if b.startswith('q/')",
     "        if b.startswith(('q/', 'w/'))"),
    ('c20_delete_ignores_stabilization', ['C20'],
     'bert_e/jobs/delete_branch.py',
     "        if any([b.startswith(stab_prefix) for b in repo.remote_branches]):",
     "        if False:"),
    ('c16_unmasked_output', ['C16'], 'bert_e/lib/simplecmd.py',
     "                    (mask_pwd(command), proc.returncode, output)",
     "                    (mask_pwd(command), proc.returncode, "
     "_raw_output)"),  # completed below
    ('c16_log_url', ['C16'], 'bert_e/lib/git.py',
     """        if not os.path.isdir(git_cache):""",
     """        LOG.info('Using %s', self._url)
        if not os.path.isdir(git_cache):"""),
]

EXTRA_EDITS = {
    'c12_dependencies_checked_late': [(
        G + '__init__.py',
        """    wbranches = list(create_integration_branches(job))
    use_queue = job.settings.use_queue""",
        """    wbranches = list(create_integration_branches(job))
    check_dependencies(job)
    use_queue = job.settings.use_queue""")],
    'c16_unmasked_output': [(
        'bert_e/lib/simplecmd.py',
        """            output, _ = proc.communicate(timeout=timeout)
            output = mask_pwd(output)""",
        """            output, _ = proc.communicate(timeout=timeout)
            _raw_output = output
            output = mask_pwd(output)""")],
}


def apply(root, path, old, new):
    p = os.path.join(root, path)
    s = open(p).read()
    if old not in s:
        raise SystemExit('mutant text not found in %s:\n%s' % (path, old))
    open(p, 'w').write(s.replace(old, new, 1))


def main():
    want = sys.argv[1:]
    rows = []
    for name, checks, path, old, new in MUTANTS:
        if want and name not in want:
            continue
        root = tempfile.mkdtemp(prefix='vf-mut-')
        try:
            subprocess.check_call(['rsync', '-a', '--exclude', '.git',
                                   '/repo/', root + '/'])
            apply(root, path, old, new)
            for e in EXTRA_EDITS.get(name, []):
                apply(root, *e)
            subprocess.check_call(['/venv/bin/python', '-m', 'compileall',
                                   '-q', os.path.join(root, 'bert_e')],
                                  stdout=subprocess.DEVNULL)
            for c in checks:
                t0 = time.time()
                env = dict(os.environ, VERIF_REPO=root,
                           VERIF_HOME=tempfile.mkdtemp(prefix='vf-mh-'))
                # private VERIF_HOME: evidence/replays of mutant runs must not
                # land in /verif
                for f in ('known_findings.json',):
                    shutil.copy(os.path.join(HERE, f), env['VERIF_HOME'])
                p = subprocess.run(
                    ['/venv/bin/python', '-m', 'vf.cli', c, '--tier',
                     'quick'], cwd=HERE,
                    env=dict(env, PYTHONHASHSEED='0', PYTHONWARNINGS='ignore',
                             PYTHONDONTWRITEBYTECODE='1',
                             PYTHONPATH='%s:%s:%s/.deps' % (root, HERE,
                                                            HERE)),
                    stdout=subprocess.PIPE, stderr=subprocess.STDOUT,
                    universal_newlines=True)
                line = [l for l in p.stdout.splitlines()
                        if l.startswith(('VIOLATION', 'OK ', 'HARNESS'))]
                msg = [l.strip() for l in p.stdout.splitlines()
                       if l.startswith('  ')][:1]
                rows.append((name, c, p.returncode, time.time() - t0,
                             (msg[0] if msg else (line[0] if line else ''))
                             [:160]))
                print(rows[-1], flush=True)
                shutil.rmtree(env['VERIF_HOME'], ignore_errors=True)
        finally:
            shutil.rmtree(root, ignore_errors=True)
    out = os.path.join(HERE, 'sensitivity', 'SIM.md')
    with open(out, 'a') as f:
        f.write('\n## run of %s\n\n| mutant | check | exit | wall s | first '
                'message |\n|---|---|---|---|---|\n' %
                time.strftime('%Y-%m-%d %H:%M'))
        for r in rows:
            f.write('| %s | %s | %d | %.0f | %s |\n' % (
                r[0], r[1], r[2], r[3], r[4].replace('|', '/')))


if __name__ == '__main__':
    main()
