#!/usr/bin/env python3
"""Builds regressions/<ID>/ from (a) the replays of repaired findings under
replays/ and (b) the replays produced when a seeded change was caught
(seeded/*/replay_<ID>.json).  A case is kept only if the property HOLDS on it
on the current /repo (it is a regression test, not an open finding)."""
import glob
import json
import os
import shutil
import subprocess
import sys

HERE = os.path.dirname(os.path.abspath(__file__))
cands = []
for f in sorted(glob.glob(os.path.join(HERE, 'replays', '*', '*.json'))):
    pid = os.path.basename(os.path.dirname(f))
    cands.append((pid, f, 'finding-' + os.path.basename(f)))
for f in sorted(glob.glob(os.path.join(HERE, 'seeded', '*', 'replay_*.json'))):
    pid = os.path.basename(f)[len('replay_'):-len('.json')]
    sid = os.path.basename(os.path.dirname(f))
    cands.append((pid, f, 'seeded-%s.json' % sid))
kept = dropped = 0
for pid, f, name in cands:
    body = json.load(open(f))
    size = len(json.dumps(body))
    steps = body.get('case', {}).get('steps') if isinstance(
        body.get('case'), dict) else None
    heavy = steps and sum(1 for s_ in steps if isinstance(s_, dict) and s_.get('op') in (
        'fault', 'placed', 'rejected', 'cmdfail', 'twin')) > 12
    if size > 60000 or heavy:
        print('skip (too large / too slow for the replay tier)', f)
        continue
    if os.path.exists(os.path.join(HERE, 'regressions', pid, name)):
        continue
    p = subprocess.run([os.path.join(HERE, 'bin', 'check'), pid, '--replay',
                        f], stdout=subprocess.PIPE, stderr=subprocess.STDOUT,
                       universal_newlines=True)
    dst = os.path.join(HERE, 'regressions', pid)
    if p.returncode == 0 and 'VIOLATION' not in p.stdout:
        os.makedirs(dst, exist_ok=True)
        shutil.copy(f, os.path.join(dst, name))
        kept += 1
        print('keep', pid, name)
    else:
        dropped += 1
        print('DROP', pid, name, p.stdout.strip().splitlines()[-1:][:1])
print('kept', kept, 'dropped', dropped)
